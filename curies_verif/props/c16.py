"""C16 - bulk operations equal element-wise scalar calls and fail atomically."""

from __future__ import annotations

from ..report import Cx, Ob, describe, obligation
from ..rules import CONV, where
from ..terms import callee_name, is_const, op, show, subterms

describe(
    "C16",
    "other",
    "Wrapper contracts of the pd_* / file_* methods (the scalar named by a table written from the property text, mapped over the column "
    "with strict and passthrough bound to the method's own parameters; partial and lambda forms equivalent), None-discipline on "
    "target_column, and an ordering rule in _file_helper: every call of the conversion callable happens before the file is opened for "
    "writing, the write-open lies outside the read loop and the read `with`; only row[column] is assigned, rows keep their order, header "
    "and delimiter are symmetric.",
    ["CPython ast", "pandas Series.map applies the callable per cell", "csv reader/writer symmetry", "open(path, 'w') truncates at open time"],
    [],
    ["pandas .map NA behaviour", "csv quoting"],
)

TABLE = {
    "pd_compress": ("compress_or_standardize", "compress"),
    "pd_expand": ("expand_or_standardize", "expand"),
    "pd_standardize_prefix": (None, "standardize_prefix"),
    "pd_standardize_curie": (None, "standardize_curie"),
    "pd_standardize_uri": (None, "standardize_uri"),
    "file_compress": ("compress_or_standardize", "compress"),
    "file_expand": ("expand_or_standardize", "expand"),
}


def check_bound(ob: Ob, fn, f, me, line: int, amb_value=None, flags=None) -> None:
    amb, plain = TABLE[fn.name]
    flags = flags or {}
    own = [x for x in ("strict", "passthrough") if fn.param(x) is not None]
    if op(f) != "bound":
        # the bare scalar method: right only on a path on which every own flag is known to be off (a helper that
        # "binds only non-default flags")
        if op(f) == "attr" and f[1] == me and all(flags.get(x) is False for x in own):
            target, kws = f, {}
        elif op(f) == "attr" and f[1] == me:
            # a scalar method of the converter handed over bare while a flag may be set: the flag is dropped
            ob.violate(fn.qualname, where(fn, line), f"{fn.name} maps `{show(f)[:60]}` over the column, not the scalar method with strict/passthrough bound", detail="callable-shape")
            return
        else:
            # a callable of the wrapper's own making (a lambda over the tables, a closure from a factory): the
            # column is not converted THROUGH the scalar method, so nothing proved about that method carries over
            ob.undecide(f"{fn.name} maps `{show(f)[:60]}` over the column - a callable of its own, not the scalar method with strict/passthrough bound: that it answers cell by cell as the scalar method does is not decided")
            return
    else:
        target, kws = f[1], dict(f[3])
        if f[2]:
            ob.violate(fn.qualname, where(fn, line), f"{fn.name} binds positional arguments {show(f[2])[:40]}", detail="positional")
    # the mode the cells are converted in must be the mode of the scalar call with the wrapper's own flags, in every
    # flag world this path is taken in (strict dominates passthrough in the scalar methods: C08)
    import itertools as _it

    def mode(s_, p_):
        return "strict" if s_ else "passthrough" if p_ else "default"

    bad_flags = set()
    for vals in _it.product((True, False), repeat=len(own)):
        world = dict(zip(own, vals))
        if any(flags.get(k) is not None and flags[k] != v_ for k, v_ in world.items()):
            continue
        eff = {}
        for flag in ("strict", "passthrough"):
            v = kws.get(flag)
            if v is None:
                eff[flag] = False
            elif v == ("param", flag):
                eff[flag] = world.get(flag, False)
            elif is_const(v) and isinstance(v[1], bool):
                eff[flag] = v[1]
            else:
                eff[flag] = None
        if None in eff.values() or mode(eff["strict"], eff["passthrough"]) != mode(world.get("strict", False), world.get("passthrough", False)):
            for flag in own:
                v = kws.get(flag)
                if v != ("param", flag) and not (eff.get(flag) is not None and eff[flag] == world.get(flag, False)):
                    bad_flags.add(flag)
            if not bad_flags:
                bad_flags.update(own)
    for flag in sorted(bad_flags, key=lambda x: ("strict", "passthrough").index(x)):
        v = kws.get(flag)
        ob.violate(
            fn.qualname,
            where(fn, line),
            f"{fn.name} does not bind `{flag}` of the scalar method to its own `{flag}` parameter ({flag}={show(v) if v else 'not passed'}): cells are converted in a different mode than the scalar call",
            detail=f"flag:{flag}",
        )
    extra = set(kws) - {"strict", "passthrough"}
    if extra:
        ob.violate(fn.qualname, where(fn, line), f"{fn.name} binds extra keyword(s) {sorted(extra)}", detail="extra-kw")

    def meth(t):
        return t[2] if op(t) == "attr" and t[1] == me else None

    if amb is None:
        if meth(target) != plain:
            ob.violate(fn.qualname, where(fn, line), f"{fn.name} maps `{show(target)[:50]}`, not self.{plain}", detail="scalar")
        return
    if op(target) == "ifexp":
        c, a, b = target[1], target[2], target[3]
        pol = True
        if op(c) == "not":
            c, pol = c[1], False
        if c != ("param", "ambiguous"):
            ob.violate(fn.qualname, where(fn, line), f"{fn.name} chooses the scalar by `{show(c)[:40]}`, not by `ambiguous`", detail="selector")
        x, y = (a, b) if pol else (b, a)
        if meth(x) != amb or meth(y) != plain:
            ob.violate(fn.qualname, where(fn, line), f"{fn.name} uses self.{meth(x)} when ambiguous and self.{meth(y)} otherwise; expected {amb} / {plain}", detail="scalar")
    elif amb_value is not None:
        # the choice was made by an if/else statement: this path fixes `ambiguous`
        want = amb if amb_value else plain
        if meth(target) != want:
            ob.violate(fn.qualname, where(fn, line), f"{fn.name} uses `{show(target)[:50]}` when ambiguous is {amb_value}; expected self.{want}", detail="scalar")
    else:
        ob.violate(fn.qualname, where(fn, line), f"{fn.name} maps `{show(target)[:50]}` regardless of `ambiguous`; expected self.{amb} if ambiguous else self.{plain}", detail="scalar")


@obligation("C16-D1", "WRAP: each pd_* / file_* maps over the column exactly the scalar named by the table, with strict and passthrough bound to its own parameters (partial / lambda equivalent)", floor=7)
def d1(cx: Cx, ob: Ob) -> None:
    for name in TABLE:
        fn = cx.fn(f"{CONV}.{name}", ob.id)
        s = cx.summary(fn, ob.id)
        me = ("param", fn.self_name)
        found = False
        from ..rules import flag_values

        if name.startswith("pd_"):
            for ev, ctx in s.distinct_events("store"):
                if op(ev.a) == "item" and ev.a[1] == ("param", "df"):
                    v = ev.b
                    if op(v) == "call" and callee_name(v) in ("map", "apply") and v[2]:
                        found = True
                        ob.site(f"{where(fn, ev.line)} {fn.qualname}", show(v[2][0])[:90])
                        check_bound(ob, fn, v[2][0], me, ev.line, flag_values(ctx, ("ambiguous",)).get("ambiguous"), flag_values(ctx, ("strict", "passthrough")))
                    else:
                        ob.undecide(f"{name}: column is computed by `{show(v)[:60]}`")
                        found = True
        else:
            for c, ev, ctx in s.calls("_file_helper"):
                found = True
                f = c[2][0] if c[2] else dict(c[3]).get("func")
                ob.site(f"{where(fn, ev.line)} {fn.qualname}", show(f)[:90])
                check_bound(ob, fn, f, me, ev.line, flag_values(ctx, ("ambiguous",)).get("ambiguous"), flag_values(ctx, ("strict", "passthrough")))
                kw = dict(c[3])
                for p in ("path", "column", "sep", "header"):
                    if kw.get(p) != ("param", p):
                        pos = {"path": 1, "column": 2, "sep": 3, "header": 4}[p]
                        if not (len(c[2]) > pos and c[2][pos] == ("param", p)):
                            ob.violate(fn.qualname, where(fn, ev.line), f"{name} does not forward `{p}` to _file_helper", detail=f"forward:{p}")
        if not found:
            sib = [(c, ev) for c, ev, _ in s.calls() if op(c[1]) == "attr" and c[1][1] == me and c[1][2] in TABLE and c[1][2] != name]
            for c, ev in sib:
                other = c[1][2]
                amb_o, plain_o = TABLE[other]
                kw = dict(c[3])
                av = kw.get("ambiguous")
                used = amb_o if is_const(av, True) else plain_o if (av is None or is_const(av, False)) else f"{amb_o} / {plain_o}"
                want = TABLE[name][1]
                found = True
                ob.site(f"{where(fn, ev.line)} {fn.qualname}", f"delegates to {other}")
                if used != want:
                    ob.violate(
                        fn.qualname,
                        where(fn, ev.line),
                        f"{name} delegates to {other}({'ambiguous=' + show(av) if av else ''}), which maps self.{used} over the column, not self.{want}: cells of the other kind are converted instead of standardised / reported",
                        witness="a compressible URI in a CURIE column is compressed by pd_standardize_curie instead of giving NA",
                        detail="scalar",
                    )
        if not found:
            ob.undecide(f"{name}: bulk application not recognised")


@obligation("C16-D2", "pd_* store into target_column when it IS NOT None, else into column (not `target_column or column`), reading df[column]", floor=5)
def d2(cx: Cx, ob: Ob) -> None:
    for name in TABLE:
        if not name.startswith("pd_"):
            continue
        fn = cx.fn(f"{CONV}.{name}", ob.id)
        s = cx.summary(fn, ob.id)
        col, tc, df = ("param", "column"), ("param", "target_column"), ("param", "df")
        stores = [(ev, ctx) for ev, ctx in s.events("store") if op(ev.a) == "item" and ev.a[1] == df]
        if not stores:
            ob.undecide(f"{name}: no store into the data frame")
            continue
        seen = set()
        for ev, ctx in stores:
            key = ev.a[2]
            conds = [(g.a, g.b) for g in ctx.guards if g.kind == "guard"]
            if (ev.line, key) in seen:
                continue
            seen.add((ev.line, key))
            ob.site(f"{where(fn, ev.line)} {fn.qualname}", f"df[{show(key)[:60]}] = ...")
            ok = False
            if op(key) == "ifexp":
                c, a, b = key[1], key[2], key[3]
                if c == ("cmp", "is", tc, ("const", None)) and (a, b) == (col, tc):
                    ok = True
                if c == ("cmp", "is not", tc, ("const", None)) and (a, b) == (tc, col):
                    ok = True
                if c == tc or (op(c) == "not" and c[1] == tc):
                    ob.violate(fn.qualname, where(fn, ev.line), f"{name} selects the target column by truthiness of target_column: the legitimate column label 0 (or '') is treated as 'not given' and the source column is overwritten", witness="integer column labels, target_column=0", detail="target-truthiness")
                    ok = True
            elif op(key) == "or" and key[1] == (tc, col):
                ob.violate(fn.qualname, where(fn, ev.line), f"{name} stores into `target_column or column`: the legitimate column label 0 (or '') is treated as 'not given' and the source column is overwritten", witness="integer column labels, target_column=0", detail="target-truthiness")
                ok = True
            elif key == tc and ((("cmp", "is", tc, ("const", None)), False) in conds or (("cmp", "is not", tc, ("const", None)), True) in conds):
                ok = True
            elif key == col and ((("cmp", "is", tc, ("const", None)), True) in conds or (("cmp", "is not", tc, ("const", None)), False) in conds):
                ok = True
            elif key in (tc, col) and any(c == tc for c, _ in conds):
                ob.violate(fn.qualname, where(fn, ev.line), f"{name} selects the target column by truthiness of target_column", witness="integer column labels, target_column=0", detail="target-truthiness")
                ok = True
            if not ok:
                ob.violate(fn.qualname, where(fn, ev.line), f"{name} stores into `{show(key)[:60]}`; expected column if target_column is None else target_column", detail="target")
            val = ev.b
            if op(val) == "call" and op(val[1]) == "attr" and val[1][2] == "astype" and len(val[2]) == 1:
                # a cast of the mapped column: to `object` it keeps every cell as it is (str / None); to any other dtype
                # (the SOURCE column's: categories, fixed-width strings, numbers) converted cells that the dtype cannot
                # hold are coerced or become NaN
                if val[2][0] in (("builtin", "object"), ("const", "object"), ("const", "O")):
                    val = val[1][1]
                else:
                    ob.violate(fn.qualname, where(fn, ev.line), f"{name} casts the converted column to `{show(val[2][0])[:40]}`: cells whose converted value that dtype cannot hold (new categories of a categorical column, ..) are altered or lost, so the column is no longer what the scalar method gives cell by cell", witness="a column of dtype 'category': every converted cell that is not already a category becomes NaN", detail="cast-after-map")
                    continue
            src = val[1][1] if op(val) == "call" and op(val[1]) == "attr" else None
            if src != ("item", df, col):
                ob.violate(fn.qualname, where(fn, ev.line), f"{name} reads `{show(src)[:40] if src else '?'}`, not df[column]", detail="source")
        # DataFrame.insert(loc, label, values) is not an assignment: it raises ValueError when the label is already a
        # column (allow_duplicates defaults to False), where `df[label] = values` replaces that column
        inserted = False
        for ev, ctx in s.events("expr"):
            c = ev.a
            if not (op(c) == "call" and callee_name(c) == "insert" and op(c[1]) == "attr" and c[1][1] == df and len(c[2]) >= 2):
                continue
            inserted = True
            label = c[2][1]
            kw = dict(c[3])
            conds = [(g.a, g.b) for g in ctx.guards if g.kind == "guard"]
            absent = any((op(a) == "cmp" and a[2] == label and ((a[1] == "in" and b is False) or (a[1] == "not in" and b is True)) and any(x == df for x in subterms(a[3]))) for a, b in conds)
            ob.site(f"{where(fn, ev.line)} {fn.qualname}", f"df.insert(.., {show(label)[:30]}, ..) {'only when that label is not a column yet' if absent else ''}")
            if absent or is_const(kw.get("allow_duplicates"), True):
                if is_const(kw.get("allow_duplicates"), True):
                    ob.undecide(f"{name}: df.insert(.., allow_duplicates=True) - a second column of the same label instead of replacing it")
                continue
            ob.violate(
                fn.qualname,
                where(fn, ev.line),
                f"{name} puts the result into the frame with `{show(c)[:70]}`: DataFrame.insert raises ValueError when `{show(label)[:30]}` is already a column, where the assignment it stands for replaces that column - converting a second time (or into any existing column) now fails",
                witness="df with columns ['uri', 'curie']; pd_compress(df, 'uri', target_column='curie') raises ValueError: cannot insert curie, already exists",
                detail="insert-existing-column",
            )
        covers_target = inserted or any(any(x == tc for x in subterms(ev.a[2])) for ev, _ in stores)
        if not covers_target:
            ob.undecide(f"{name}: no store into the frame mentions target_column")


def _is_write_open(t, pathvars) -> tuple | None:
    """(opened object term, mode) if ``t`` opens something for writing."""
    if op(t) != "call":
        return None
    name = callee_name(t)
    kw = dict(t[3])
    if name == "open" and op(t[1]) == "attr":
        mode = t[2][0] if t[2] else kw.get("mode")
        if is_const(mode) and any(ch in str(mode[1]) for ch in "wax+"):
            return t[1][1], mode[1]
    if name == "open" and op(t[1]) == "builtin":
        mode = t[2][1] if len(t[2]) > 1 else kw.get("mode")
        if is_const(mode) and any(ch in str(mode[1]) for ch in "wax+"):
            return t[2][0], mode[1]
    if name in ("write_text", "write_bytes") and op(t[1]) == "attr":
        return t[1][1], "w"
    return None


@obligation("C16-D3", "ORDER (atomicity): in _file_helper every call of the conversion callable and every read happens before the first write-mode open of the file, which lies outside the read loop and the read `with`", floor=2)
def d3(cx: Cx, ob: Ob) -> None:
    fn = cx.fn(f"{CONV}._file_helper", ob.id)
    s = cx.summary(fn, ob.id)
    func = ("param", "func")
    flat = []  # (event, ctx) of ONE top-level path in execution order, loop bodies flattened in place
    # all top-level paths share the same statement order; positions are compared through the
    # path with the most events (the one that takes the header branch etc.)
    best = None
    from ..summ import _walk

    for p in s.paths:
        one = list(_walk([p], (), (), (), ()))
        if best is None or len(one) > len(best):
            best = one
    flat = best or []
    # evaluate per top-level path: order is the walk order restricted to that path
    first_write = None
    for i, (ev, ctx) in enumerate(flat):
        terms = s.syn.get(ev.line, ()) if ev.kind in ("with", "expr", "bind", "store") else ()
        for t in terms:
            for c in subterms(t):
                w = _is_write_open(c, None)
                if w is not None and first_write is None:
                    first_write = (i, ev, ctx, w)
    calls = []
    probe_seen: set = set()
    for i, (ev, ctx) in enumerate(flat):
        for t in s.syn.get(ev.line, ()):
            for c in subterms(t):
                if op(c) == "call" and c[1] in (func, ("lv", "func")):
                    # a probe of the HEADER cell (to word a warning) is not a conversion of the column
                    if any(op(x) == "lv" and "header" in x[1] for x in subterms(c[2][0])) if c[2] else False:
                        # ... but the callable carries the caller's strict flag: on an ordinary header label it
                        # raises under strict=True unless the probe is shielded
                        if not ev.cov and ("probe", ev.line) not in probe_seen:
                            probe_seen.add(("probe", ev.line))
                            ob.violate(
                                fn.qualname,
                                where(fn, ev.line),
                                "the conversion callable is applied to the HEADER cell outside any try: it has the caller's strict flag bound, so file_compress / file_expand(strict=True, header=True) raises on an ordinary column title although every data cell converts",
                                witness="header 'uri', strict=True: CompressionError('uri') before a single row is read",
                                detail="header-probe-raises",
                            )
                        continue
                    calls.append((i, ev, ctx))
    if not calls:
        ob.undecide("_file_helper never calls the conversion callable")
        return
    import ast as _ast

    def _rollback_try(line: int):
        """The try statement around ``line`` whose catch-all handler writes the file back and re-raises."""
        for n in _ast.walk(fn.node):
            if not isinstance(n, _ast.Try) or not (n.body and n.body[0].lineno <= line <= (n.body[-1].end_lineno or n.body[-1].lineno)):
                continue
            for h in n.handlers:
                names = [] if h.type is None else [_ast.unparse(x) for x in (h.type.elts if isinstance(h.type, _ast.Tuple) else [h.type])]
                catch_all = h.type is None or any(x in ("BaseException", "Exception") for x in names)
                reraises = bool(h.body) and isinstance(h.body[-1], _ast.Raise) and h.body[-1].exc is None
                restores = any(isinstance(c, _ast.Call) and isinstance(c.func, _ast.Attribute) and c.func.attr in ("write_bytes", "write_text", "write", "replace", "rename", "copyfile", "copy", "move") for st in h.body for c in _ast.walk(st))
                if catch_all and reraises and restores and len(n.handlers) == 1:
                    return n
        return None

    for ci, cev, cctx in calls:
        if cev.cov and _rollback_try(cev.line) is not None:
            continue  # the only handler re-raises whatever it caught: nothing is swallowed
        if cev.cov:
            ob.violate(
                fn.qualname,
                where(fn, cev.line),
                f"the conversion callable is called inside try/except {sorted(n for names in cev.cov for n in names)}: an error the scalar call would raise (strict mode) can be swallowed - the library's own exception classes may derive from the caught class - and the file is rewritten as if the cell had converted",
                witness="file_expand(strict=True) with an unknown prefix no longer raises if ExpansionError is (made) a LookupError",
                detail="conversion-in-try",
            )
    if first_write is None:
        ob.undecide("_file_helper never opens a file for writing")
        return
    wi, wev, wctx, (wobj, mode) = first_write
    ob.site(f"{where(fn, wev.line)} {fn.qualname}", f"first write-open: {show(wobj)[:30]} mode {mode!r}")
    update_mode = isinstance(mode, str) and "r" in mode and "+" in mode
    if update_mode:
        # 'r+' does not truncate: the file is untouched until the first write / truncate through the handle, and
        # what is written over the old content has to be cut to length afterwards
        WRITES = ("write", "writelines", "writerow", "writerows", "truncate")
        first_touch = None
        truncates = []
        for i, (ev, ctx) in enumerate(flat):
            if i <= wi:
                continue
            for t in s.syn.get(ev.line, ()):
                for c in subterms(t):
                    if op(c) == "call" and op(c[1]) == "attr" and c[1][2] in WRITES:
                        if first_touch is None:
                            first_touch = (i, ev, ctx)
                        if c[1][2] == "truncate":
                            truncates.append((i, ev, c))
        if first_touch is None:
            ob.undecide(f"_file_helper opens the file in mode {mode!r} and no write through the handle was found")
            return
        if not truncates:
            ob.violate(
                fn.qualname,
                where(fn, first_touch[1].line),
                f"the file is opened in mode {mode!r} (no truncation) and rewritten from the start without a truncate(): when the converted table is shorter than the original, the old tail stays behind the new rows",
                witness="file_compress on a table of URIs: CURIEs are shorter, the last original rows survive after the converted ones (the first of them torn)",
                detail="no-truncate",
            )
        elif any(c[2] and not is_const(c[2][0], None) for _, _, c in truncates):
            ob.undecide("truncate() is called with an explicit size")
        wi, wev, wctx = first_touch
        ob.site(f"{where(fn, wev.line)} {fn.qualname}", f"first write through the {mode!r} handle")
    # accepted alternative: write to another file and os.replace it over the original
    replaces = [c for c, _, _ in s.calls() if op(c[1]) == "ext" and c[1][1] in ("os.replace", "os.rename", "shutil.move")] + [c for c, _, _ in s.calls("replace") if op(c[1]) == "attr" and len(c[2]) == 1] + [c for c, _, _ in s.calls("rename") if op(c[1]) == "attr"]
    via_temp = bool(replaces) and not any(x == ("lv", "path") or x == ("param", "path") for x in subterms(wobj))
    seen = set()
    for ci, cev, cctx in calls:
        if cev.line in seen:
            continue
        seen.add(cev.line)
        ob.site(f"{where(fn, cev.line)} {fn.qualname}", "call of the conversion callable")
        if via_temp:
            continue
        if cev.line > wev.line and ci > wi and _rollback_try(cev.line) is not None and _rollback_try(wev.line) is _rollback_try(cev.line):
            # converting while writing, under a handler that puts the old content back and re-raises: atomic if what
            # it puts back is the complete original - a property of that handler, not of the order of statements
            ob.undecide(f"_file_helper converts after the write-open (line {wev.line}) under a catch-all handler that rewrites the file and re-raises: that the handler restores the complete original is not decided")
            continue
        if cev.line > wev.line and ci > wi:
            ob.violate(
                fn.qualname,
                where(fn, cev.line),
                "the conversion callable is called after the file has been opened for writing: if a cell makes it raise (strict mode, malformed row) the file on disk is already truncated",
                witness=f"write-open at line {wev.line}, conversion at line {cev.line}",
                detail="convert-after-open",
            )
    if not via_temp:
        if wctx.loops and not update_mode:
            ob.violate(fn.qualname, where(fn, wev.line), "the file is opened for writing inside the read loop", detail="open-in-loop")
        if not update_mode and any(_reads(w) for w in wctx.withs):
            ob.violate(fn.qualname, where(fn, wev.line), "the file is opened for writing while it is still open for reading", detail="open-in-read-with")
    # reads after the write-open: a loop that iterates the csv reader object itself
    reader_names = {ev.a for ev, _ in flat if ev.kind == "bind" and op(ev.b) == "call" and op(ev.b[1]) == "ext" and ev.b[1][1] == "csv.reader"}
    for i, (ev, ctx) in enumerate(flat):
        if i > wi and ev.kind == "loop" and not via_temp:
            for t in s.syn.get(ev.line, ()):
                if (op(t) == "lv" and t[1] in reader_names) or (op(t) == "call" and op(t[1]) == "ext" and t[1][1] == "csv.reader"):
                    ob.violate(fn.qualname, where(fn, ev.line), "rows are read after the file has been opened for writing", detail="read-after-open")


def _reads(w) -> bool:
    t = w.a
    if op(t) == "call" and callee_name(t) == "open":
        args = t[2]
        mode = (args[0] if args else None) if op(t[1]) == "attr" else (args[1] if len(args) > 1 else None)
        mode = mode or dict(t[3]).get("mode")
        return mode is None or (is_const(mode) and "r" in str(mode[1]))
    return False


@obligation("C16-D4", "_file_helper assigns only row[column] (None -> ''), keeps row order, writes the header first iff one was read, and uses the same delimiter both ways", floor=2)
def d4(cx: Cx, ob: Ob) -> None:
    fn = cx.fn(f"{CONV}._file_helper", ob.id)
    s = cx.summary(fn, ob.id)
    func, col = ("param", "func"), ("param", "column")
    readers = [c for c, _, _ in s.calls("reader") if op(c[1]) == "ext" and c[1][1] == "csv.reader"]
    writers = [c for c, _, _ in s.calls("writer") if op(c[1]) == "ext" and c[1][1] == "csv.writer"]
    if not readers or not writers:
        ob.undecide("_file_helper does not use csv.reader / csv.writer")
        return
    from ..rules import csv_agreement, csv_dialect

    csv_agreement(ob, fn, fn, writers[0], readers[0], "_file_helper")
    rq = csv_dialect(readers[0]).get("quoting")
    if rq is not None and "QUOTE_NONE" in show(rq):
        ob.violate(
            fn.qualname,
            fn.where,
            "_file_helper reads with quoting=QUOTE_NONE: a quoted cell is handed to the conversion with its quote characters (and a quoted cell containing the delimiter is split into two columns), so the column is not transformed as the scalar method would transform the cell's value",
            detail="reader-quote-none",
        )
    src = readers[0][2][0] if readers[0][2] else None
    for x in subterms(src) if src is not None else ():
        if op(x) == "call" and op(x[1]) == "attr" and x[1][2] in ("splitlines", "split"):
            ob.violate(
                fn.qualname,
                fn.where,
                f"_file_helper feeds csv.reader with `{show(src)[:50]}`: str.{x[1][2]} cuts lines at characters the csv module treats as data (\\x0b, \\x0c, \\x1c-\\x1e, \\x85, U+2028, U+2029) and inside quoted cells, so one row becomes two and other columns / the row count are not preserved",
                witness="a cell containing U+2028 in a comment column: the row is torn apart",
                detail="reader-source",
            )
    rd, wd = dict(readers[0][3]).get("delimiter"), dict(writers[0][3]).get("delimiter")
    ob.site(f"{fn.where} {fn.qualname}", f"delimiters: read {show(rd)[:30] if rd else 'default'} / write {show(wd)[:30] if wd else 'default'}")
    if rd != wd:
        ob.violate(fn.qualname, fn.where, f"the file is read with delimiter {show(rd) if rd else 'default'} and written with {show(wd) if wd else 'default'}", detail="delimiter")
    if rd is not None and not any(x == ("param", "sep") for x in subterms(rd)):
        ob.violate(fn.qualname, fn.where, "the `sep` argument is ignored", detail="sep")
    stores = s.distinct_events("store")
    n = 0
    for ev, ctx in stores:
        if not ctx.loops:
            continue
        row = ctx.loops[-1].a
        if op(ev.a) == "item" and ev.a[1] == row:
            n += 1
            ob.site(f"{where(fn, ev.line)} {fn.qualname}", f"{show(ev.a)} := {show(ev.b)[:50]}")
            if ev.a[2] != col:
                ob.violate(fn.qualname, where(fn, ev.line), f"_file_helper assigns `{show(ev.a)}`: a column other than the chosen one is changed", detail="other-column")
            # every cell of the column goes through the conversion: a cell-dependent shortcut skips cells on which the
            # scalar call has something to say (under strict=True it raises for '' as for any unconvertible string)
            cell = ("item", row, col)
            cg = [g for g in ctx.guards if g.kind == "guard" and g.line >= ctx.loops[-1].line and any(x == cell for x in subterms(g.a))]
            if cg:
                path_atoms_ = [g.a for g in ctx.guards if g.kind == "guard" and g.line >= ctx.loops[-1].line] + [t_ for t_ in s.syn.get(cg[0].line, ()) if isinstance(t_, tuple)]
                if any(a == ("param", "strict") or any(x == ("param", "strict") for x in subterms(a)) for a in path_atoms_):
                    ob.undecide(f"_file_helper converts a cell only when `{show(cg[0].a)[:40]}` or strict: that skipped cells convert to themselves in the non-strict modes is not decided")
                else:
                    ob.violate(
                        fn.qualname,
                        where(fn, ev.line),
                        f"_file_helper converts a cell only when `{'' if cg[0].b else 'not '}{show(cg[0].a)[:50]}`: skipped cells never reach the conversion, so a file_* call with strict=True succeeds on a file whose cell makes the scalar call raise",
                        witness="file_compress(path, 0, strict=True) with an empty cell: the scalar compress('', strict=True) raises CompressionError, the file is rewritten silently",
                        detail="conditional-conversion",
                    )
            v = ev.b
            inner = v[1][0] if op(v) == "or" else v[3] if op(v) == "ifexp" else v
            calls = [c for c in subterms(v) if op(c) == "call" and c[1] == func]
            if not calls or calls[0][2] != (("item", row, col),):
                ob.violate(fn.qualname, where(fn, ev.line), f"the cell is computed as `{show(v)[:50]}`, not func(row[column])", detail="cell")
            if op(v) == "or" and not is_const(v[1][-1], ""):
                ob.violate(fn.qualname, where(fn, ev.line), "a missing result is not written as an empty cell", detail="none-cell")
            if op(v) == "call" and v[1] == func:
                ob.violate(fn.qualname, where(fn, ev.line), "a missing result (None) is written to the cell unchanged", detail="none-cell")
    if n == 0:
        ob.undecide("_file_helper: no assignment to row[column] found")
    appends = [(c, ev, ctx) for c, ev, ctx in s.calls("append") if ctx.loops]
    if appends:
        # every row that is read is written again: a path of the row loop that skips the append drops the row
        lp_ = appends[0][2].loops[-1]
        for p_ in lp_.body or []:
            if p_.out is not None and p_.out[0] == "raise":
                continue
            has_app = any(ev2.kind == "expr" and op(ev2.a) == "call" and callee_name(ev2.a) == "append" and ev2.a[2] == (lp_.a,) for ev2 in p_.events)
            if not has_app:
                gs_ = [g for g in p_.events if g.kind == "guard"]
                ob.violate(
                    fn.qualname,
                    where(fn, gs_[-1].line if gs_ else lp_.line),
                    f"a row for which `{('' if gs_[-1].b else 'not ') + show(gs_[-1].a)[:50] if gs_ else '?'}` is not appended to the rows that are written back: the file loses that line (a blank line, a short row) although no cell of it was converted",
                    witness="a file with a blank line in the middle comes back one line shorter",
                    detail="row-dropped",
                )
                break
        c, ev, ctx = appends[0]
        if c[2] != (ctx.loops[-1].a,):
            ob.violate(fn.qualname, where(fn, ev.line), "the row collected for writing is not the row that was read", detail="row")
        if len({e_.line for _, e_, _ in appends}) == 1 and s.must_guards(ev):
            # (with several append statements the rows are judged path by path above: every path must append)
            ob.violate(fn.qualname, where(fn, ev.line), "rows are kept only conditionally: some rows disappear from the file", detail="row-filter")
    if any(callee_name(c) in ("sorted", "reversed", "sort", "reverse") for c, _, _ in s.calls() if any(op(x) == "new" for x in subterms(c))):
        ob.violate(fn.qualname, fn.where, "rows are re-ordered before writing", detail="row-order")
    # the header row is taken out of the data exactly when `header` is set
    hb = [ev for ev, _ in s.walk() if ev.kind == "bind" and ev.a == "_header" and not is_const(ev.b, None)]
    for ev in hb[:1]:
        v = ev.b
        okh = op(v) == "ifexp" and v[1] == ("param", "header") and callee_name(v[2]) == "next" and is_const(v[3], None)
        if not okh:
            guards_ok = False
            if callee_name(v) == "next":
                # `if header: _header = next(reader)` form
                for e2, c2 in s.walk():
                    if e2 is ev or (e2.kind == "bind" and e2.a == "_header" and e2.line == ev.line):
                        guards_ok = any(g.kind == "guard" and g.a == ("param", "header") and g.b is True for g in c2.guards)
                        break
            if not guards_ok:
                ob.violate(fn.qualname, where(fn, ev.line), f"the header row is taken as `{show(v)[:50]}`, not `next(reader) if header else None`: with header=False the first data row is swallowed (or with header=True the header is converted like data)", detail="header-flag")
    rows_w = [(c, ev) for c, ev, _ in s.calls("writerows")]
    hdr_w = [(c, ev) for c, ev, ctx in s.calls("writerow") if not ctx.loops]
    if not rows_w:
        ob.undecide("_file_helper does not use writer.writerows")
    if hdr_w and rows_w and hdr_w[0][1].line > rows_w[0][1].line:
        ob.violate(fn.qualname, where(fn, hdr_w[0][1].line), "the header row is written after the data rows", detail="header-order")
    if not hdr_w:
        # does the row taken by next(reader) reach any write call?
        nexts = [c for c, _, _ in s.calls("next")]
        flows = False
        for c, ev, ctx in s.calls():
            if callee_name(c) in ("writerow", "writerows") and any(any(y == n for y in subterms(c)) for n in nexts):
                flows = True
            if callee_name(c) in ("writerow", "writerows"):
                for x in subterms(c):
                    if op(x) == "new" and any(any(y == n for y in subterms(x)) for n in nexts):
                        flows = True
        if not flows:
            # the header may be put in front of the collected rows before one writerows(...)
            for c, ev, ctx in s.calls():
                if callee_name(c) == "insert" and len(c[2]) == 2 and is_const(c[2][0], 0) and any(any(y == n for y in subterms(c[2][1])) for n in nexts):
                    flows = True
                elif callee_name(c) in ("append", "extend", "insert") and any(any(y == n for y in subterms(a)) for a in c[2] for n in nexts):
                    ob.undecide("the header row is added to the output rows in a position that is not recognisably the front")
                    flows = True
        if flows:
            ob.site(f"{fn.where} {fn.qualname}", "header row reaches a write call")
        elif nexts:
            ob.violate(fn.qualname, fn.where, "the header row that was read is never written back", detail="header-lost")



@obligation("C16-X2", "state closure (shared with C05): all derived converter state is maintained by _index, lookup tables are never rebound after construction, and no query method writes converter state (no stale caches)", floor=5)
def x2(cx: Cx, ob: Ob) -> None:
    from ..rules import state_closure

    state_closure(cx, ob)


@obligation("C16-D5", "text files AGREE: _file_helper re-opens the file for writing with the same encoding / errors arguments it was read with", floor=2)
def d5(cx: Cx, ob: Ob) -> None:
    from ..rules import open_args_agreement

    open_args_agreement(cx, ob, [f"{CONV}._file_helper"], [f"{CONV}._file_helper"], "_file_helper")


@obligation("C16-X6", "LOOKUP None-discipline (shared with C02-D3): lookup results and str|None results are tested with `is None`, never by truthiness - the empty prefix, the empty URI prefix and the empty identifier are legitimate values", floor=40)
def x6(cx: Cx, ob: Ob) -> None:
    from ..rules import scan_none_discipline
    from .c02 import none_scope

    scan_none_discipline(cx, ob, none_scope(cx))


@obligation("C16-X12", "def-use lints over the files this property is anchored in (api.py): no one-shot iterator (generator expression, map, filter, zip, iter, reversed, enumerate, generator call) bound to a name is consumed twice or inside a loop that starts after its creation; no mutable default argument is mutated, stored or returned; no binary search over a sequence that is not kept sorted; no container resized inside the loop that iterates it; no Iterable parameter consumed twice before it is materialised; itertools.groupby only over input sorted by the grouping key", floor=1)
def x12(cx: Cx, ob: Ob) -> None:
    from ..rules import package_lints

    package_lints(cx, ob, {'api.py'})
