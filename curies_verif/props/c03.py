"""C03 - compression is lossless; compress/expand inverse on prefix-free maps (lemma set)."""

from __future__ import annotations

from ..report import Cx, Ob, describe, obligation
from ..rules import CONV, component, self_call, state_closure, where
from ..terms import concat_parts, is_const, op, show
from .c01 import check_remainder, check_table_roles, curie_join_check, format_curie_check, is_parse_uri_of
from .c02 import (
    check_expand_pair_all,
    check_expand_reference,
    check_get_record,
    check_parse_curie_delimiter,
    check_parse_curie_flow,
    check_split,
)

describe(
    "C03",
    "other",
    "Round-trip equality follows on paper from five structural lemmas (DESIGN.md section 3, C03); the checker discharges the lemmas: "
    "L1 exact remainder in parse_uri and table roles, L2 untouched identifier and canonical URI prefix in expand, L3 join and split use the "
    "same self.delimiter at its first occurrence, L4 expand_pair_all enumerates exactly the record's URI prefixes, L5 standardize_uri = "
    "prefix_map[parsed prefix] + identifier, L6 no converter state outside what _index maintains.",
    ["CPython ast", "pytrie longest-prefix search", "str slicing / partition / dict semantics"],
    ["CURIE prefixes do not contain the delimiter", "prefix-freeness for the bijection clause"],
    ["the equalities u in expand_all(compress(u)), compress(expand(c)) = standardize_curie(c) themselves"],
)


@obligation("C03-L1", "parse_uri returns (owner of the matched key, input minus exactly the matched key); reverse_prefix_map/trie roles", floor=5)
def l1(cx: Cx, ob: Ob) -> None:
    check_remainder(cx, ob)
    check_table_roles(cx, ob, ["reverse_prefix_map", "trie"])


@obligation("C03-L2", "expand of P.d.i returns prefix_map[P] + i with i untouched; prefix_map/synonym_to_prefix roles", floor=6)
def l2(cx: Cx, ob: Ob) -> None:
    check_parse_curie_flow(cx, ob)
    check_expand_reference(cx, ob)
    check_table_roles(cx, ob, ["prefix_map", "synonym_to_prefix"])


@obligation("C03-L3", "compress joins and parse_curie splits with the same self.delimiter, at its first occurrence", floor=5)
def l3(cx: Cx, ob: Ob) -> None:
    curie_join_check(cx, ob, "compress", is_parse_uri_of("uri"), "self.parse_uri(uri, ...)")
    format_curie_check(cx, ob)
    check_parse_curie_delimiter(cx, ob)
    check_split(cx, ob)


@obligation("C03-L4", "expand_pair_all enumerates exactly the URI prefixes of the record found by get_record (canonical first)", floor=2)
def l4(cx: Cx, ob: Ob) -> None:
    check_expand_pair_all(cx, ob)
    check_get_record(cx, ob)


@obligation("C03-L5", "standardize_uri = prefix_map[parse_uri(u).prefix] + identifier", floor=1)
def l5(cx: Cx, ob: Ob) -> None:
    check_standardize_uri(cx, ob)


def check_standardize_uri(cx: Cx, ob: Ob) -> None:
    fn = cx.fn(f"{CONV}.standardize_uri", ob.id)
    s = cx.summary(fn, ob.id)
    me = ("param", fn.self_name)
    found = False
    for t, ctx in s.returns():
        if is_const(t, None) or op(t) == "param":
            continue
        found = True
        line = ctx.path.out[2]
        ob.site(f"{where(fn, line)} {fn.qualname}", f"return {show(t)[:70]}")
        parts = concat_parts(t)
        if parts is None or len(parts) != 2:
            ob.violate(fn.qualname, where(fn, line), f"standardize_uri returns `{show(t)[:70]}`, not <canonical URI prefix> + <identifier>", detail="concat-shape")
            continue
        U, I = parts
        ci = component(I)
        if ci is None or ci[1] != 1:
            ob.violate(fn.qualname, where(fn, line), f"standardize_uri appends `{show(I)[:60]}`, not the parsed identifier", detail="identifier-flow")
            continue
        R = ci[0]
        if not (self_call(R, me, "parse_uri") and R[2][:1] == (("param", "uri"),)):
            ob.violate(fn.qualname, where(fn, line), f"standardize_uri is based on `{show(R)[:60]}`, not parse_uri(uri)", detail="base")
            continue
        key = None
        if op(U) == "item" and U[1] == ("attr", me, "prefix_map"):
            key = U[2]
        elif op(U) == "call" and op(U[1]) == "attr" and U[1][2] == "get" and U[1][1] == ("attr", me, "prefix_map"):
            key = U[2][0] if U[2] else None
        if key is None:
            ob.violate(fn.qualname, where(fn, line), f"URI prefix comes from `{show(U)[:60]}`, not prefix_map (the canonical URI prefix of the parsed record)", detail="uri-prefix-source")
            continue
        ck = component(key)
        if ck is None or ck[0] != R or ck[1] != 0:
            ob.violate(fn.qualname, where(fn, line), f"prefix_map looked up with `{show(key)[:60]}`, not the parsed prefix", detail="lookup-key")
            continue
        from .c01 import success_conditions

        success_conditions(ob, fn, ctx, R, line)
    if not found:
        ob.undecide("standardize_uri has no success return")


@obligation("C03-L6", "no converter state exists that _index does not maintain; query methods write no state (expand's output stays compressible after incremental additions)", floor=5)
def l6(cx: Cx, ob: Ob) -> None:
    state_closure(cx, ob)



@obligation("C03-X1", "OWN (shared with C10): no function that takes a converter stores into, mutates or captures the Record objects of its input - a converter whose records are changed behind its back no longer matches its own lookup tables", floor=6)
def x1(cx: Cx, ob: Ob) -> None:
    from .c10 import check_no_aliasing

    check_no_aliasing(cx, ob)


@obligation("C03-X3", "no memoised derived values (cached_property / lru_cache) on Record, Reference or Converter objects, which are changed in place or copied with updates", floor=3)
def x3(cx: Cx, ob: Ob) -> None:
    from ..rules import cached_derivations

    cached_derivations(cx, ob)


@obligation("C03-L7", "MODE tail shape of compress / expand / standardize_curie / standardize_uri: the unmodified input is returned only under passthrough, None only in the default mode, success values identical in all modes (a shortcut that echoes its input bypasses standardisation)", floor=12)
def l7(cx: Cx, ob: Ob) -> None:
    from .c08 import check_tails

    check_tails(cx, ob, ["compress", "expand", "standardize_curie", "standardize_uri"])


@obligation("C03-L8", "LOOKUP: parse_uri fails only in the trie's KeyError handler - every URI that has a registered prefix parses, including the bare prefix that expand produces for an empty identifier", floor=1)
def l8(cx: Cx, ob: Ob) -> None:
    from .c01 import check_parse_uri_lookup

    check_parse_uri_lookup(cx, ob)


@obligation("C03-X5", "pairing (shared with C05-D4): every normally returning path of add_record merges or appends and then unconditionally re-indexes the changed record, so the lookup tables never lag behind the records", floor=2)
def x5(cx: Cx, ob: Ob) -> None:
    from .c05 import check_add_record_pairing

    check_add_record_pairing(cx, ob)


@obligation("C03-X6", "LOOKUP None-discipline (shared with C02-D3): lookup results and str|None results are tested with `is None`, never by truthiness - the empty prefix, the empty URI prefix and the empty identifier are legitimate values", floor=40)
def x6(cx: Cx, ob: Ob) -> None:
    from ..rules import scan_none_discipline
    from .c02 import none_scope

    scan_none_discipline(cx, ob, none_scope(cx))


@obligation("C03-X8", "the Record model stores prefixes and URI prefixes verbatim: no pydantic string transformation (strip / case folding / length limits) in its model_config or field declarations", floor=1)
def x8(cx: Cx, ob: Ob) -> None:
    from ..rules import record_verbatim

    record_verbatim(cx, ob)


@obligation("C03-X4", "uniqueness precondition (shared with C04): compress and expand_all agree on the record only if no name is claimed twice - the strict constructor runs both duplicate detectors over all unordered pairs of records", floor=4)
def x4(cx: Cx, ob: Ob) -> None:
    from .c04 import d1 as c04_order, d2 as c04_matrix

    c04_order(cx, ob)
    c04_matrix(cx, ob)


@obligation("C03-X10", "Converter.__init__ reads its (Iterable, possibly one-shot) `records` argument only through one materialising call (sorted/list) and keeps that fresh list - never the caller's list object, never sorted in place", floor=2)
def x10(cx: Cx, ob: Ob) -> None:
    from ..rules import constructor_owns_records

    constructor_owns_records(cx, ob)


@obligation("C03-X12", "def-use lints over the files this property is anchored in (api.py): no one-shot iterator (generator expression, map, filter, zip, iter, reversed, enumerate, generator call) bound to a name is consumed twice or inside a loop that starts after its creation; no mutable default argument is mutated, stored or returned; no binary search over a sequence that is not kept sorted; no container resized inside the loop that iterates it; no Iterable parameter consumed twice before it is materialised; itertools.groupby only over input sorted by the grouping key", floor=1)
def x12(cx: Cx, ob: Ob) -> None:
    from ..rules import package_lints

    package_lints(cx, ob, {'api.py'})


@obligation("C03-X14", "the default standardize_identifier hook is the identity (shared with C02-D8): the CURIE-side operations accept and keep exactly the identifiers the URI-side operations produce", floor=1)
def x14(cx: Cx, ob: Ob) -> None:
    from .c02 import check_identifier_hook

    check_identifier_hook(cx, ob)


@obligation("C03-X16", "incremental construction (shared with C05-D3/D5/D6): add_record rejects a record that matches several existing records and never merges into an arbitrary one; _match_record / _merge compare and add by exact membership (compress and expand stay inverse on prefix-free maps built incrementally)", floor=8)
def x16(cx: Cx, ob: Ob) -> None:
    from .c05 import check_match_record, check_merge, d3 as add_record_guards

    check_match_record(cx, ob)
    check_merge(cx, ob)
    add_record_guards(cx, ob)
