"""C13 - every loader yields exactly the converter its input format denotes."""

from __future__ import annotations

import ast

from ..report import Cx, Ob, describe, obligation
from ..rules import API, CONV, Prov, construct_of_plain_strings, where
from ..summ import describe_path
from ..terms import NONE, callee_name, is_const, op, show, substitute, subterms

describe(
    "C13",
    "other",
    "Must-pass-through of LocationOr arguments through _prepare, sibling agreement of the Path and str branches of _prepare, every loader "
    "returning cls(records, **kwargs), record-builder summaries compared with a role table written from the property text (key/value roles, "
    "head/tail of the same sorted sequence, key=len for the reverse map, lexicographic sort for upgrade_prefix_map, no filters), and the "
    "decision table of the JSON-LD term filter.",
    ["CPython ast", "json.load / dict.items / sorted are stable and do what they say", "rdflib namespaces() yields (prefix, namespace) pairs"],
    [],
    ["JSON / rdflib behaviour", "that the denoted converter then behaves accordingly (C01-C04)"],
)

LOADERS = ["from_extended_prefix_map", "from_priority_prefix_map", "from_prefix_map", "from_reverse_prefix_map", "from_jsonld"]
WRAPPERS = {"load_prefix_map": "from_prefix_map", "load_extended_prefix_map": "from_extended_prefix_map", "load_jsonld_context": "from_jsonld", "load_shacl": "from_shacl"}
PREP = ("func", f"{API}._prepare")


def record_kwargs(t):
    if op(t) == "call" and op(t[1]) == "cls" and t[1][1].endswith(".Record") and not t[2]:
        return {k: v for k, v in t[3] if k is not None}
    if op(t) == "call" and op(t[1]) == "attr" and t[1][2] == "model_construct" and op(t[1][1]) == "cls" and t[1][1][1].endswith(".Record") and construct_of_plain_strings(t):
        # the two canonical fields as `str(..)` of the names given (the identity on the strings a prefix map holds)
        return {k: (v[2][0] if op(v) == "call" else v) for k, v in t[3]}
    return None


@obligation("C13-D1", "must-pass-through: in every Converter.from_* taking LocationOr[...] the data argument is used only as the argument of _prepare; load_* wrappers forward data and **kwargs to the matching from_*", floor=9)
def d1(cx: Cx, ob: Ob) -> None:
    ci = cx.model.cls(CONV, ob.id)
    n = 0
    for m in ci.methods.values():
        if not m.is_classmethod or len(m.params) < 2:
            continue
        p = m.params[1]
        if p.annotation is None or "LocationOr" not in ast.unparse(p.annotation):
            continue
        n += 1
        s = cx.summary(m, ob.id)
        data = ("param", p.name)
        marker = ("prepared",)
        ob.site(f"{m.where} {m.qualname}", f"LocationOr parameter `{p.name}`")
        used_prepared = False
        for t, ev, ctx in s.all_terms():
            t2 = substitute(t, {("call", PREP, (data,), ()): marker})
            if any(x == marker for x in subterms(t2)):
                used_prepared = True
            if ev.kind == "bind":
                continue
            if any(x == data for x in subterms(t2)):
                # delegation of the raw location to another loader that prepares it is fine
                deleg = [c for c in subterms(t2) if op(c) == "call" and op(c[1]) == "attr" and c[1][1] in (("param", "cls"), ("cls", CONV)) and c[1][2].startswith("from_") and c[2][:1] == (data,)]
                if deleg:
                    used_prepared = True
                    continue
                ob.violate(m.qualname, where(m, ev.line), f"{m.name} uses its LocationOr argument `{p.name}` without passing it through _prepare: file paths and URLs are not loaded", witness=show(t)[:100], detail="bypass-prepare")
        if not used_prepared:
            ob.violate(m.qualname, m.where, f"{m.name} never passes `{p.name}` through _prepare", detail="no-prepare")
    check_load_wrappers(cx, ob)


def check_load_wrappers(cx: Cx, ob: Ob) -> None:
    for w, target in WRAPPERS.items():
        fn = cx.fn(f"{API}.{w}", ob.id)
        s = cx.summary(fn, ob.id)
        data = ("param", fn.params[0].name)
        for t, ctx in s.returns():
            ob.site(f"{fn.where} {fn.qualname}", f"return {show(t)[:60]}")
            ok = op(t) == "call" and op(t[1]) == "attr" and t[1][1] == ("cls", CONV) and t[1][2] == target and t[2][:1] == (data,)
            if not ok:
                ob.violate(fn.qualname, fn.where, f"{w} returns `{show(t)[:60]}`, not Converter.{target}({data[1]}, **kwargs)", detail="wrapper")
            elif not any(k is None and v == ("param", "kwargs") for k, v in t[3]):
                ob.violate(fn.qualname, fn.where, f"{w} does not forward **kwargs", detail="kwargs")


WORLDS = {
    "P": "a pathlib.Path",
    "S": "a str naming a local file",
    "R": "a str starting with https:// / http:// / ftp://",
    "O": "an in-memory object",
    "O2": "an in-memory Mapping / iterable of records that is not literally a dict or list (a tuple, a generator, a MappingProxyType, the Records model)",
}


def _world_eval(t, data, w):
    """Truth of a guard term of _prepare in world w (None = not recognised)."""
    o = op(t)
    if o == "const":
        return bool(t[1])
    if o == "not":
        v = _world_eval(t[1], data, w)
        return None if v is None else not v
    if o in ("and", "or"):
        vals = []
        for x in t[1]:
            v = _world_eval(x, data, w)
            # short-circuit exactly like Python so that `isinstance(data, str) and data.startswith(..)` is safe
            if o == "and" and v is False:
                return False
            if o == "or" and v is True:
                return True
            vals.append(v)
        if any(v is None for v in vals):
            return None
        return all(vals) if o == "and" else any(vals)
    if o == "call" and callee_name(t) == "isinstance" and len(t[2]) == 2 and t[2][0] == data:
        ty = t[2][1]
        names = [show(x) for x in (ty[1] if op(ty) == "tuple" else (ty,))]
        verdicts = []
        for n in names:
            n = n.rsplit(".", 1)[-1]
            if n.endswith("Path") or n.endswith("PurePath"):
                verdicts.append(w == "P")
            elif n == "str":
                verdicts.append(w in ("S", "R"))
            elif n in ("dict", "list", "Dict", "List"):
                verdicts.append(w == "O")
            elif n in ("Iterable", "Collection", "Container"):
                verdicts.append(w in ("S", "R", "O", "O2"))  # strings are iterable collections, too
            elif n in ("Mapping", "MutableMapping"):
                verdicts.append(None if w in ("O", "O2") else False)  # some in-memory inputs are mappings, some lists
            else:
                verdicts.append(None)
        if any(v is True for v in verdicts):
            return True
        if all(v is False for v in verdicts):
            return False
        return None
    remote = None
    if o == "call" and callee_name(t) == "any" and t[2] and op(t[2][0]) == "comp":
        comp = t[2][0]
        if op(comp[2]) == "call" and callee_name(comp[2]) == "startswith" and comp[2][1][1] == data:
            remote = comp[3][0][1]
    if o == "call" and callee_name(t) == "startswith" and op(t[1]) == "attr" and t[1][1] == data and t[2]:
        remote = t[2][0]
    if remote is not None:
        if w in ("P", "O", "O2"):
            return False
        return w == "R"
    return None


@obligation("C13-D2", "sibling agreement in _prepare (decision table over the kind of argument): a Path and a local str both end in json.load of a handle opened on the argument, a remote str is fetched, anything else is returned unchanged", floor=3)
def d2(cx: Cx, ob: Ob) -> None:
    fn = cx.fn(f"{API}._prepare", ob.id)
    s = cx.summary(fn, ob.id)
    data = ("param", fn.params[0].name)
    reached: dict[str, list] = {w: [] for w in WORLDS}
    # what tells a remote location from a local path is a full URL scheme ("https://"): a bare "http" / "ftp" is
    # also how a relative file name can start
    seen_pre = set()
    for ev, _ in s.walk():
        if ev.kind != "guard":
            continue
        for x in subterms(ev.a):
            if op(x) == "call" and callee_name(x) == "startswith" and op(x[1]) == "attr" and x[1][1] == data and x[2]:
                pre = x[2][0]
                if op(pre) == "bv":
                    continue
                elts = pre[1] if op(pre) in ("tuple", "list") else (pre,)
                for e in elts:
                    if is_const(e) and isinstance(e[1], str) and "://" not in e[1] and e[1] not in seen_pre:
                        seen_pre.add(e[1])
                        ob.violate(
                            fn.qualname,
                            where(fn, ev.line),
                            f"_prepare takes a string for a remote location when it starts with {e[1]!r}: a local file whose (relative) path starts like that - 'http_prefixes.json', 'ftp_mirror/epm.json' - is fetched as a URL instead of opened, while the same file given as a Path loads",
                            witness="from_prefix_map('http_prefixes.json') raises ValueError('unknown url type'), from_prefix_map(Path('http_prefixes.json')) works",
                            detail="remote-test-too-wide",
                        )
    for x in [y for ev, _ in s.walk() if ev.kind == "guard" for y in subterms(ev.a) if op(y) == "call" and callee_name(y) == "any" and y[2] and op(y[2][0]) == "comp"]:
        src_ = x[2][0][3][0][1]
        for e in (src_[1] if op(src_) in ("tuple", "list") else ()):
            if is_const(e) and isinstance(e[1], str) and "://" not in e[1] and e[1] not in seen_pre:
                seen_pre.add(e[1])
                ob.violate(fn.qualname, fn.where, f"_prepare takes a string for a remote location when it starts with {e[1]!r}, which is also how a local file name can start", detail="remote-test-too-wide")
    # the object a file decodes to is the object that was dumped: a decoding hook that re-orders (or de-duplicates)
    # the members gives the loaders another dictionary order than the in-memory object has - and some loaders break
    # ties by that order (from_reverse_prefix_map keeps the first of equally short URI prefixes)
    import ast as _ast

    for g in [fn] + [f_ for q_, f_ in cx.model.functions.items() if q_.endswith("._get_remote_json") or q_.endswith("._prepare")]:
        for n in _ast.walk(g.node):
            if isinstance(n, _ast.Call) and _ast.unparse(n.func) in ("json.load", "json.loads"):
                for k in n.keywords:
                    if k.arg in ("object_pairs_hook", "object_hook") and isinstance(k.value, _ast.Name):
                        r = cx.model.resolve_global(g.module, k.value.id)
                        hook = r[1] if r and r[0] == "func" else None
                        if hook is None:
                            ob.undecide(f"{g.name}: JSON decoding hook `{k.value.id}` not resolved")
                            continue
                        reorders = [c for c in _ast.walk(hook.node) if isinstance(c, _ast.Call) and isinstance(c.func, _ast.Name) and c.func.id in ("sorted", "reversed", "set", "frozenset")]
                        if reorders:
                            ob.violate(
                                g.qualname,
                                f"src/curies/{g.module.relpath}:{n.lineno}",
                                f"{g.name} decodes JSON objects through `{hook.name}`, which applies `{_ast.unparse(reorders[0])[:40]}` to the members: a dictionary loaded from a file (str or Path) comes in another order than the object it was dumped from, and loaders that break ties by dictionary order build another converter",
                                witness="from_reverse_prefix_map with two equally short URI prefixes for one prefix: the canonical URI prefix differs between the file and the object",
                                detail="load-reorders",
                            )
                        else:
                            ob.site(f"src/curies/{g.module.relpath}:{n.lineno} {g.qualname}", f"decoding hook {hook.name} keeps the order of the members")
    for o_, ctx in s.outcomes():
        if o_ is None:
            t, line = NONE, fn.node.lineno
        elif o_[0] == "return":
            t, line = o_[1], o_[2]
        else:
            continue
        for w in WORLDS:
            ok = True
            for g in ctx.guards:
                if g.kind != "guard":
                    continue
                v = _world_eval(g.a, data, w)
                if v is None:
                    ob.undecide(f"_prepare: guard `{show(g.a)[:60]}` not recognised")
                    ok = False
                    break
                if v != g.b:
                    ok = False
                    break
            if ok:
                reached[w].append((t, line))

    def loads_argument(t) -> str | None:
        """None if ``t`` is json.load(<handle opened for reading on the argument>), else a complaint."""
        if not (op(t) == "call" and op(t[1]) == "ext" and t[1][1] in ("json.load", "json.loads")):
            return f"returns `{show(t)[:50]}` instead of the parsed JSON document"
        h = t[2][0] if t[2] else None
        if t[1][1] == "json.loads":
            if any(op(x) == "call" and callee_name(x) in ("read_text", "read") and any(y == data for y in subterms(x)) for x in subterms(t)):
                return None
            return "parses something other than the content of the argument"
        if op(h) != "ctx":
            return f"parses `{show(h)[:40]}`, not a handle opened on the argument"
        c = h[2]
        mode = None
        if op(c) == "call" and op(c[1]) == "attr" and c[1][1] == data and c[1][2] == "open":
            mode = c[2][0] if c[2] else dict(c[3]).get("mode")
        elif op(c) == "call" and op(c[1]) == "builtin" and c[1][1] == "open" and c[2][:1] == (data,):
            mode = c[2][1] if len(c[2]) > 1 else dict(c[3]).get("mode")
        else:
            return f"opens `{show(c)[:40]}`, not the argument"
        if mode is not None and not (is_const(mode) and mode[1] in ("r", "rt")):
            return f"opens the file with mode {show(mode)}"
        return None

    for w, text in WORLDS.items():
        outs = reached[w]
        if not outs and w == "O2" and any(o_ is not None and o_[0] == "raise" and all(_world_eval(g.a, data, "O2") == g.b for g in ctx_.guards if g.kind == "guard") for o_, ctx_ in s.outcomes()):
            ob.violate(
                fn.qualname,
                fn.where,
                f"_prepare raises for {text}: the loaders are declared for any Mapping / any iterable of records, and such a collection is now refused before it is looked at - a clash-free one cannot be loaded, a clashing one gives the wrong error",
                witness="from_extended_prefix_map(tuple_of_records) / from_prefix_map(MappingProxyType(d)): TypeError",
                detail="object-rejected",
            )
            continue
        if not outs:
            if not ob.undecided:
                ob.violate(fn.qualname, fn.where, f"_prepare has no outcome for {text}", detail=f"missing:{w}")
            continue
        for t, line in outs:
            ob.site(f"{where(fn, line)} {fn.qualname}", f"{text}: {show(t)[:50]}")
            if w in ("P", "S", "R") and op(t) == "call" and op(t[1]) == "attr" and op(t[1][1]) == "call" and op(t[1][1][1]) == "cls" and t[1][1][1][1] in cx.model.classes and any(x == data for x in subterms(t[1][1])):
                # the argument is wrapped in a helper object of the package and that object does the loading
                ob.undecide(f"_prepare leaves loading ({text}) to `{show(t)[:50]}`, a method of a helper object: what it opens and parses is not followed")
                continue
            if w in ("P", "S"):
                bad = loads_argument(t)
                if bad:
                    ob.violate(fn.qualname, where(fn, line), f"given {text}, _prepare {bad}: loading from {'Path' if w == 'P' else 'str'} no longer yields the same converter as loading the object", detail=f"unloaded:{w}")
            elif w == "R":
                if not (op(t) == "call" and op(t[1]) == "func" and t[1][1].endswith("._get_remote_json") and t[2][:1] == (data,)):
                    ob.violate(fn.qualname, where(fn, line), f"given {text}, _prepare returns `{show(t)[:50]}` instead of fetching it", detail="remote")
            else:
                if t != data:
                    ob.violate(fn.qualname, where(fn, line), f"given {text}, _prepare returns `{show(t)[:50]}` instead of the object unchanged", detail="object-changed")


def loader_ctor(cx: Cx, ob: Ob, m, mapping_input: bool = False):
    """Yield (records term, ctx) of the ``cls(records, **kwargs)`` a loader returns.  With ``mapping_input`` the
    loader's documented input is a mapping: a path taken only when the (prepared) input is NOT a Mapping / dict
    serves other kinds of input and is outside what the property speaks about."""
    s = cx.summary(m, ob.id)
    data_ = ("param", m.params[1].name) if len(m.params) > 1 else None

    def _not_a_mapping(g) -> bool:
        a_ = g.a
        if not (g.kind == "guard" and g.b is False and op(a_) == "call" and a_[1] == ("builtin", "isinstance") and len(a_[2]) == 2 and any(x == data_ for x in subterms(a_[2][0]))):
            return False
        ts = a_[2][1][1] if op(a_[2][1]) == "tuple" else (a_[2][1],)
        names = {show(t_).rsplit(".", 1)[-1] for t_ in ts}
        # `isinstance(x, dict)` alone is narrower than the documented type: other Mappings take this path too
        return "Mapping" in names and names <= {"Mapping", "dict", "MutableMapping", "Dict"}

    for t, ctx in s.returns():
        if mapping_input and any(_not_a_mapping(g) for g in ctx.guards):
            continue
        line = ctx.path.out[2] if ctx.path.out else m.node.lineno
        if op(t) == "call" and t[1] in (("param", "cls"), ("cls", CONV)):
            recs = t[2][0] if t[2] else dict(t[3]).get("records")
            if not any(k is None and v == ("param", "kwargs") for k, v in t[3]):
                ob.violate(m.qualname, where(m, line), f"{m.name} does not forward **kwargs to the constructor", detail="kwargs")
            for k, v in t[3]:
                if k == "strict" and not is_const(v, True):
                    ob.violate(m.qualname, where(m, line), f"{m.name} constructs with strict={show(v)}", detail="strict-off")
            yield s, recs, line
        elif op(t) == "call" and op(t[1]) == "attr" and t[1][1] in (("param", "cls"), ("cls", CONV)) and t[1][2].startswith("from_"):
            if not any(k is None and v == ("param", "kwargs") for k, v in t[3]):
                ob.violate(m.qualname, where(m, line), f"{m.name} does not forward **kwargs to {t[1][2]}", detail="kwargs")
            yield s, ("delegate", t[1][2], t[2][0] if t[2] else None, tuple((g.a, g.b) for g in ctx.guards if g.kind == "guard")), line
        else:
            ob.violate(m.qualname, where(m, line), f"{m.name} returns `{show(t)[:60]}`, not cls(records, **kwargs)", detail="return-shape")


@obligation("C13-D3", "every loader returns cls(records, **kwargs) (or delegates to another from_* with **kwargs); none switches strictness off", floor=7)
def d3(cx: Cx, ob: Ob) -> None:
    ci = cx.model.cls(CONV, ob.id)
    for name in [*LOADERS, "from_rdflib", "from_shacl"]:
        m = cx.model.find_method(ci, name)
        if m is None:
            ob.undecide(f"loader {name} not found")
            continue
        for s, recs, line in loader_ctor(cx, ob, m):
            ob.site(f"{where(m, line)} {m.qualname}", "constructor call")


def _single_comp(ob: Ob, m, recs, line, kind=("list", "gen"), s=None):
    if s is not None and op(recs) == "new":
        from ..rules import as_comprehension

        c = as_comprehension(s, recs)
        recs = c if c is not None else recs
    if op(recs) != "comp" or recs[1] not in kind or len(recs[3]) != 1:
        return None
    tgt, it, ifs = recs[3][0]
    # a filter that only drops what is not a string (a ``null`` placeholder) drops nothing the property speaks
    # about: prefix maps and records hold strings
    tvars = set(tgt[1]) if op(tgt) == "tuple" else {tgt}

    def _outside_domain(c) -> bool:
        if op(c) == "cmp" and c[1] in ("is not", "!=") and c[2] in tvars and is_const(c[3], None):
            return True
        if op(c) == "not" and op(c[1]) == "cmp" and c[1][1] in ("is", "==") and c[1][2] in tvars and is_const(c[1][3], None):
            return True
        if op(c) == "call" and c[1] == ("builtin", "isinstance") and len(c[2]) == 2 and c[2][0] in tvars and c[2][1] == ("builtin", "str"):
            return True
        return False

    ifs = tuple(c for c in ifs if not _outside_domain(c))
    if ifs:
        ob.violate(m.qualname, where(m, line), f"{m.name} filters its input with `{show(ifs[0])[:60]}`: some listed entries are dropped", witness="e.g. the empty (default-namespace) prefix or falsy values", detail="filter")
    return tgt, it, recs[2]


@obligation("C13-D4", "record-builder summaries vs. role table: key->prefix, value->uri_prefix; head/tail of the same (sorted) sequence become canonical/synonyms; key=len for the reverse map; lexicographic sort and sorted outer iteration for upgrade_prefix_map; no filters", floor=6)
def d4(cx: Cx, ob: Ob) -> None:
    ci = cx.model.cls(CONV, ob.id)
    groupby_sortedness(cx, ob)
    # ---- from_prefix_map
    m = cx.model.find_method(ci, "from_prefix_map")
    data = ("param", m.params[1].name)
    for s, recs, line in loader_ctor(cx, ob, m, mapping_input=True):
        ob.site(f"{where(m, line)} {m.qualname}", show(recs)[:80])
        if op(recs) == "delegate" and recs[1] != "from_prefix_map":
            # the input is handed to the loader of ANOTHER format on the strength of what it contains: right only for
            # inputs that are no prefix maps at all (a value that is not a string); a test of the KEYS alone also
            # catches prefix maps that happen to use that key as a CURIE prefix
            gs_ = recs[3] if len(recs) > 3 else ()
            non_str = any(pol is True and op(a) == "call" and a[1] == ("builtin", "isinstance") and len(a[2]) == 2 and any(op(y) in ("call", "item") for y in subterms(a[2][0])) and not any(show(t_).rsplit(".", 1)[-1] == "str" for t_ in (a[2][1][1] if op(a[2][1]) == "tuple" else (a[2][1],))) for a, pol in gs_)
            on_keys = [a for a, pol in gs_ if op(a) == "cmp" and a[1] in ("in", "not in") and is_const(a[2])]
            if non_str:
                ob.site(f"{where(m, line)} {m.qualname}", f"inputs whose value under a key is not a string go to {recs[1]} (no prefix map has such a value)")
            elif on_keys:
                ob.violate(
                    m.qualname,
                    where(m, line),
                    f"from_prefix_map hands its input to {recs[1]} whenever `{show(on_keys[0])[:50]}`: a prefix map that uses that key as a CURIE prefix is a listed (prefix, URI prefix) pair like any other, and is now read as another format (AttributeError / a converter without that pair)",
                    witness="from_prefix_map({'@context': 'https://example.org/ctx/', 'GO': '...'}) raises AttributeError",
                    detail="content-dispatch",
                )
            else:
                ob.undecide(f"from_prefix_map delegates to {recs[1]} under a condition that was not classified")
            continue
        sc = _single_comp(ob, m, recs, line, s=s)
        if sc is None:
            ob.undecide("from_prefix_map record construction not a single comprehension")
            continue
        tgt, it, elt = sc
        if it != ("call", ("attr", ("call", PREP, (data,), ()), "items"), (), ()):
            ob.violate(m.qualname, where(m, line), f"from_prefix_map iterates `{show(it)[:60]}`, not the items of the prepared prefix map", detail="source")
        kw = record_kwargs(elt)
        if kw is None or op(tgt) != "tuple" or len(tgt[1]) != 2:
            ob.undecide("from_prefix_map element is not Record(prefix=..., uri_prefix=...)")
            continue
        k, v = tgt[1]
        if kw.get("prefix") != k or kw.get("uri_prefix") != v:
            ob.violate(m.qualname, where(m, line), f"from_prefix_map builds Record(prefix={show(kw.get('prefix'))}, uri_prefix={show(kw.get('uri_prefix'))}) from (key={show(k)}, value={show(v)}): roles swapped or altered", detail="roles")
        for extra in set(kw) - {"prefix", "uri_prefix"}:
            ob.violate(m.qualname, where(m, line), f"from_prefix_map sets `{extra}`", detail=f"extra:{extra}")
    # ---- from_priority_prefix_map
    m = cx.model.find_method(ci, "from_priority_prefix_map")
    data = ("param", m.params[1].name)
    for s, recs, line in loader_ctor(cx, ob, m):
        ob.site(f"{where(m, line)} {m.qualname}", show(recs)[:80])
        sc = _single_comp(ob, m, recs, line, s=s)
        if sc is None:
            ob.undecide("from_priority_prefix_map record construction not a single comprehension")
            continue
        tgt, it, elt = sc
        kw = record_kwargs(elt)
        if kw is None or op(tgt) != "tuple" or len(tgt[1]) != 2:
            ob.undecide("from_priority_prefix_map element not recognised")
            continue
        k, v = tgt[1]
        check_head_tail(ob, m, line, kw, "uri_prefix", "uri_prefix_synonyms", v, "the priority list")
        if kw.get("prefix") != k:
            ob.violate(m.qualname, where(m, line), "from_priority_prefix_map does not use the key as prefix", detail="roles")
    # ---- from_reverse_prefix_map
    m = cx.model.find_method(ci, "from_reverse_prefix_map")
    data = ("param", m.params[1].name)
    for s, recs, line in loader_ctor(cx, ob, m):
        ob.site(f"{where(m, line)} {m.qualname}", show(recs)[:80])
        prov = Prov(s)
        dd = None
        for t, _, _ in s.all_terms():
            for x in subterms(t):
                if op(x) == "new" and x[1] == "defaultdict":
                    dd = x
        if dd is None:
            # plain dict filled with d.setdefault(k, []).append(v)
            for ev, _ in s.walk():
                if ev.kind == "expr" and callee_name(ev.a) == "append" and op(ev.a[1][1]) == "call" and callee_name(ev.a[1][1]) == "setdefault" and op(ev.a[1][1][1][1]) == "new":
                    dd = ev.a[1][1][1][1]
        if dd is None:
            ob.undecide("from_reverse_prefix_map grouping structure not recognised")
            continue
        # grouping: dd[<value of the mapping>].append(<key of the mapping>)
        ok_group = False
        for ev, ctx in s.walk():
            if not (ev.kind == "expr" and callee_name(ev.a) == "append"):
                continue
            recv = ev.a[1][1]
            gk = None
            if op(recv) == "item" and recv[1] == dd:
                gk = recv[2]
            elif op(recv) == "call" and callee_name(recv) == "setdefault" and recv[1][1] == dd and len(recv[2]) == 2 and op(recv[2][1]) in ("list", "display0", "new"):
                gk = recv[2][0]
            if gk is not None:
                gv = ev.a[2][0]
                lp = ctx.loops[-1] if ctx.loops else None
                if lp is not None and op(lp.a) == "tuple" and len(lp.a[1]) == 2:
                    if lp.b != ("call", ("attr", ("call", PREP, (data,), ()), "items"), (), ()):
                        ob.violate(m.qualname, where(m, lp.line), f"from_reverse_prefix_map iterates `{show(lp.b)[:60]}`", detail="source")
                    if (gk, gv) == (lp.a[1][1], lp.a[1][0]):
                        ok_group = True
                    elif (gk, gv) == (lp.a[1][0], lp.a[1][1]):
                        ob.violate(m.qualname, where(m, ev.line), "from_reverse_prefix_map groups by the URI prefix (the key) instead of the CURIE prefix (the value)", detail="group-roles")
                        ok_group = True
                    if any(g.kind == "guard" for g in ctx.guards if g.line > lp.line):
                        ob.violate(m.qualname, where(m, ev.line), "from_reverse_prefix_map groups entries only conditionally", detail="filter")
        if not ok_group:
            ob.undecide("grouping loop of from_reverse_prefix_map not recognised")
        # records
        built = None
        if op(recs) == "new":
            for ev, ctx in s.mutations_of(recs):
                if ev.kind == "expr" and callee_name(ev.a) == "append":
                    built = (ev.a[2][0], ctx.loops[-1] if ctx.loops else None, ev.line)
        elif op(recs) == "comp":
            built = (recs[2], ("comp", recs[3][0]), line)
        if built is None:
            ob.undecide("record construction of from_reverse_prefix_map not recognised")
            continue
        elt, lp, bl = built
        kw = record_kwargs(elt)
        tgt = lp.a if hasattr(lp, "a") else lp[1][0]
        it = lp.b if hasattr(lp, "b") else lp[1][1]
        if kw is None or op(tgt) != "tuple":
            ob.undecide("from_reverse_prefix_map element not recognised")
            continue
        if it != ("call", ("attr", dd, "items"), (), ()):
            ob.violate(m.qualname, where(m, bl), f"records are built from `{show(it)[:50]}`, not the groups", detail="group-source")
        k, v = tgt[1]
        if kw.get("prefix") != k:
            ob.violate(m.qualname, where(m, bl), "from_reverse_prefix_map does not use the group key as prefix", detail="roles")
        seq = check_head_tail(ob, m, bl, kw, "uri_prefix", "uri_prefix_synonyms", None, "the group")
        if seq is not None:
            if not (op(seq) == "call" and op(seq[1]) == "builtin" and seq[1][1] == "sorted" and seq[2][:1] == (v,)):
                if seq == v:
                    ob.violate(m.qualname, where(m, bl), "from_reverse_prefix_map takes the first URI prefix in dictionary order as canonical, not a shortest one", detail="unsorted")
                else:
                    ob.violate(m.qualname, where(m, bl), f"canonical URI prefix chosen from `{show(seq)[:60]}`, not sorted(group, key=len)", detail="sort-shape")
            else:
                kws = dict(seq[3])
                key_ = kws.get("key")
                # ordered by length FIRST (ties broken any way): the head is still a shortest one
                len_first = op(key_) == "lambda" and len(key_[1]) == 1 and op(key_[2]) == "tuple" and key_[2][1] and key_[2][1][0] == ("call", ("builtin", "len"), (("lv", key_[1][0]),), ())
                len_lambda = op(key_) == "lambda" and len(key_[1]) == 1 and key_[2] == ("call", ("builtin", "len"), (("lv", key_[1][0]),), ())
                if key_ != ("builtin", "len") and not len_first and not len_lambda:
                    ob.violate(m.qualname, where(m, bl), f"from_reverse_prefix_map sorts the group with key={show(kws.get('key')) if kws.get('key') else 'None (lexicographic)'}: the canonical URI prefix must be a shortest one", witness="{'https://go.example/': 'GO', 'http://amigo.geneontology.org/amigo/term/GO:': 'GO'}", detail="sort-key")
                if "reverse" in kws and not is_const(kws["reverse"], False):
                    ob.violate(m.qualname, where(m, bl), "from_reverse_prefix_map sorts longest-first", detail="sort-reverse")
    # ---- upgrade_prefix_map
    fn = cx.fn(f"{API}.upgrade_prefix_map", ob.id)
    s = cx.summary(fn, ob.id)
    pm = ("param", fn.params[0].name)
    for t, ctx in s.returns():
        line = ctx.path.out[2]
        ob.site(f"{where(fn, line)} {fn.qualname}", show(t)[:80])
        sc = _single_comp(ob, fn, t, line, s=s)
        if sc is None:
            ob.undecide("upgrade_prefix_map result is not a single comprehension")
            continue
        tgt, it, elt = sc
        kw = record_kwargs(elt)
        prov = Prov(s)
        prov.scan(t)
        if kw is None:
            ob.undecide("upgrade_prefix_map element is not Record(...)")
            continue
        if op(it) == "call" and it[1] == ("ext", "itertools.groupby") and it[2]:
            _upgrade_by_groupby(cx, ob, fn, s, pm, tgt, it, kw, prov, line)
            continue
        # outer iteration sorted
        if not (op(it) == "call" and op(it[1]) == "builtin" and it[1][1] == "sorted"):
            ob.violate(fn.qualname, where(fn, line), "upgrade_prefix_map iterates the groups in dictionary order: the result depends on the input's key order", detail="outer-unsorted")
        pv = prov.vals(kw.get("prefix")) if kw.get("prefix") is not None else []
        sv = prov.vals(kw.get("prefix_synonyms")) if kw.get("prefix_synonyms") is not None else []
        if len(pv) != 1 or len(sv) != 1:
            ob.undecide("provenance of prefix / prefix_synonyms in upgrade_prefix_map not unique")
            continue
        head, tail = pv[0], sv[0]
        if op(head) not in ("item", "slice", "call") and op(tail) not in ("item", "slice", "call"):
            # fields of an object this rule does not look into (a helper that carries the ranked group)
            ob.undecide(f"upgrade_prefix_map takes prefix / prefix_synonyms from `{show(head)[:30]}` / `{show(tail)[:30]}`: how that object was filled is not followed")
            continue
        if not (op(head) == "item" and is_const(head[2], 0) and op(tail) == "slice" and tail[1] == head[1] and is_const(tail[2], 1) and is_const(tail[3], None)):
            ob.violate(fn.qualname, where(fn, line), f"prefix / prefix_synonyms are `{show(head)[:40]}` / `{show(tail)[:40]}`: not head and tail of the same sequence (a duplicate prefix is dropped or repeated)", detail="head-tail")
            continue
        seq = head[1]
        inplace = [ev for ev, _ in s.walk() if ev.kind == "expr" and op(ev.a) == "call" and callee_name(ev.a) == "sort" and not ev.a[2] and not [k for k, _ in ev.a[3] if k in ("key", "reverse")]]
        if not (op(seq) == "call" and op(seq[1]) == "builtin" and seq[1][1] == "sorted") and inplace:
            ob.undecide("upgrade_prefix_map sorts its groups in place (`.sort()`); which sequence is sorted is not tracked")
        elif not (op(seq) == "call" and op(seq[1]) == "builtin" and seq[1][1] == "sorted"):
            ob.violate(fn.qualname, where(fn, line), "upgrade_prefix_map does not sort the CURIE prefixes of a group: the canonical prefix depends on dictionary order", detail="inner-unsorted")
        else:
            kws = dict(seq[3])
            if "key" in kws or ("reverse" in kws and not is_const(kws["reverse"], False)):
                ob.violate(fn.qualname, where(fn, line), f"upgrade_prefix_map sorts the group with {show(seq)[:60]}: the lexicographically first CURIE prefix must become canonical", detail="inner-sort-key")
        # grouping by URI prefix
        dd = None
        for tt, _, _ in s.all_terms():
            for x in subterms(tt):
                if op(x) == "new" and x[1] == "defaultdict":
                    dd = x
        if dd is not None:
            for ev, ectx in s.mutations_of(dd):
                if ev.kind == "expr" and callee_name(ev.a) == "append" and op(ev.a[1][1]) == "item":
                    lp = ectx.loops[-1] if ectx.loops else None
                    if lp is not None and op(lp.a) == "tuple" and len(lp.a[1]) == 2:
                        if (ev.a[1][1][2], ev.a[2][0]) != (lp.a[1][1], lp.a[1][0]):
                            ob.violate(fn.qualname, where(fn, ev.line), "upgrade_prefix_map does not group CURIE prefixes by URI prefix", detail="group-roles")
                        if lp.b != ("call", ("attr", pm, "items"), (), ()):
                            ob.violate(fn.qualname, where(fn, lp.line), "upgrade_prefix_map does not iterate the items of its argument", detail="source")
        if kw.get("uri_prefix") is None:
            ob.violate(fn.qualname, where(fn, line), "upgrade_prefix_map does not set uri_prefix", detail="roles")
    # ---- from_rdflib
    m = cx.model.find_method(ci, "from_rdflib")
    g = ("param", m.params[1].name)
    for s, recs, line in loader_ctor(cx, ob, m):
        ob.site(f"{where(m, line)} {m.qualname}", show(recs)[:80])
        if op(recs) != "delegate" or recs[1] != "from_prefix_map":
            ob.undecide("from_rdflib does not delegate to from_prefix_map")
            continue
        sc = _single_comp(ob, m, recs[2], line, kind=("dict",))
        if sc is None:
            ob.undecide("from_rdflib prefix map is not a single dict comprehension")
            continue
        tgt, it, elt = sc
        # rdflib: Graph.namespaces() delegates to Graph.namespace_manager.namespaces(); the argument may be either
        ok_src = (("call", ("attr", g, "namespaces"), (), ()), ("call", ("attr", ("attr", g, "namespace_manager"), "namespaces"), (), ()))
        if it not in ok_src:
            ob.violate(m.qualname, where(m, line), f"from_rdflib iterates `{show(it)[:50]}`, not .namespaces()", detail="source")
        if op(tgt) == "tuple" and len(tgt[1]) == 2:
            k, v = tgt[1]
            if elt[1] != k:
                ob.violate(m.qualname, where(m, line), "from_rdflib does not key by the namespace prefix", detail="roles")
            if elt[2] != ("call", ("builtin", "str"), (v,), ()):
                ob.violate(m.qualname, where(m, line), f"from_rdflib maps to `{show(elt[2])[:40]}`, not str(namespace)", detail="value")
    # ---- from_extended_prefix_map
    m = cx.model.find_method(ci, "from_extended_prefix_map")
    data = ("param", m.params[1].name)
    for s, recs, line in loader_ctor(cx, ob, m):
        ob.site(f"{where(m, line)} {m.qualname}", show(recs)[:80])
        sc = _single_comp(ob, m, recs, line, s=s)
        if sc is None:
            ob.undecide("from_extended_prefix_map record construction not a single comprehension")
            continue
        tgt, it, elt = sc
        while op(it) == "call" and it[1] in (("builtin", "list"), ("builtin", "tuple")) and len(it[2]) == 1 and not it[3]:
            it = it[2][0]  # a materialised copy holds the same elements in the same order
        if it != ("call", PREP, (data,), ()):
            ob.violate(m.qualname, where(m, line), f"from_extended_prefix_map iterates `{show(it)[:60]}`", detail="source")
        alts = [elt[2], elt[3]] if op(elt) == "ifexp" else [elt]
        for a in alts:
            if a == tgt:
                continue
            if op(a) == "call" and op(a[1]) == "cls" and a[1][1].endswith(".Record") and a[3] == ((None, tgt),) and not a[2]:
                continue
            # Record(**{k: v for k, v in record.items() if v is not None}): the same keywords without the ``null``s
            if op(a) == "call" and op(a[1]) == "cls" and a[1][1].endswith(".Record") and not a[2] and len(a[3]) == 1 and a[3][0][0] is None:
                dc = a[3][0][1]
                dc = dc[4] if op(dc) == "new" and len(dc) > 4 else dc
                if op(dc) == "comp" and dc[1] == "dict" and len(dc[3]) == 1:
                    dt, dsrc, difs = dc[3][0]
                    items_of = ("call", ("attr", tgt, "items"), (), ())
                    if dsrc == items_of and op(dt) == "tuple" and len(dt[1]) == 2 and dc[2] == ("kv", dt[1][0], dt[1][1]) and all(op(c_) == "cmp" and c_[1] in ("is not", "!=") and c_[2] == dt[1][1] and is_const(c_[3], None) for c_ in difs):
                        continue
            if op(a) == "call" and op(a[1]) == "attr" and a[1][2] == "model_validate" and a[2] == (tgt,):
                continue
            ob.violate(m.qualname, where(m, line), f"from_extended_prefix_map builds records with `{show(a)[:60]}`, not Record(**record)", detail="element")


def _upgrade_by_groupby(cx: Cx, ob: Ob, fn, s, pm, tgt, it, kw, prov, line) -> None:
    """upgrade_prefix_map written as groupby over the sorted (uri_prefix, curie_prefix) pairs: sorting whole
    pairs orders the groups by URI prefix and, inside a group (equal first component), by CURIE prefix."""
    base = it[2][0]
    key = dict(it[3]).get("key") or (it[2][1] if len(it[2]) > 1 else None)
    if _projection(cx, key) != ("idx", 0):
        ob.undecide(f"upgrade_prefix_map groups by `{show(key)[:40] if key else 'identity'}`")
        return
    if not (op(base) == "call" and base[1] == ("builtin", "sorted") and base[2]):
        ob.violate(fn.qualname, where(fn, line), "upgrade_prefix_map iterates the groups in dictionary order: the result depends on the input's key order", detail="outer-unsorted")
        return
    skw = dict(base[3])
    sproj = _projection(cx, skw.get("key"))
    if "reverse" in skw and not is_const(skw["reverse"], False):
        ob.violate(fn.qualname, where(fn, line), f"upgrade_prefix_map sorts the pairs with {show(base)[:60]}: the lexicographically first CURIE prefix must become canonical", detail="inner-sort-key")
    if sproj == ("idx", 0):
        ob.violate(fn.qualname, where(fn, line), "upgrade_prefix_map sorts the pairs by URI prefix only: inside a group the CURIE prefixes stay in dictionary order, so the canonical prefix depends on the input's key order", detail="inner-unsorted")
    elif sproj not in ("id", ("idxs", (0, 1))):
        ob.undecide(f"upgrade_prefix_map sorts its pairs by `{show(skw.get('key'))[:40]}`")
        return
    pairs = base[2][0]
    if not (op(pairs) == "comp" and pairs[1] in ("gen", "list") and len(pairs[3]) == 1 and op(pairs[2]) == "tuple" and len(pairs[2][1]) == 2):
        ob.undecide(f"upgrade_prefix_map sorts `{show(pairs)[:50]}`")
        return
    ptgt, psrc, pifs = pairs[3][0]
    if pifs:
        ob.violate(fn.qualname, where(fn, line), "upgrade_prefix_map filters its input", detail="filter")
    if psrc != ("call", ("attr", pm, "items"), (), ()):
        ob.violate(fn.qualname, where(fn, line), "upgrade_prefix_map does not iterate the items of its argument", detail="source")
    if not (op(ptgt) == "tuple" and len(ptgt[1]) == 2 and pairs[2][1] == (ptgt[1][1], ptgt[1][0])):
        ob.violate(fn.qualname, where(fn, line), "upgrade_prefix_map does not group CURIE prefixes by URI prefix", detail="group-roles")
    if not (op(tgt) == "tuple" and len(tgt[1]) == 2):
        ob.undecide("groupby target of upgrade_prefix_map is not (key, group)")
        return
    gk, grp = tgt[1]
    if kw.get("uri_prefix") != gk:
        ob.violate(fn.qualname, where(fn, line), "upgrade_prefix_map does not use the group key as uri_prefix", detail="roles")
    pv = prov.vals(kw.get("prefix")) if kw.get("prefix") is not None else []
    sv = prov.vals(kw.get("prefix_synonyms")) if kw.get("prefix_synonyms") is not None else []
    if len(pv) != 1 or len(sv) != 1:
        ob.undecide("provenance of prefix / prefix_synonyms in upgrade_prefix_map not unique")
        return
    head, tail = pv[0], sv[0]
    if not (op(head) == "item" and is_const(head[2], 0) and op(tail) == "slice" and tail[1] == head[1] and is_const(tail[2], 1) and is_const(tail[3], None)):
        ob.violate(fn.qualname, where(fn, line), f"prefix / prefix_synonyms are `{show(head)[:40]}` / `{show(tail)[:40]}`: not head and tail of the same sequence (a duplicate prefix is dropped or repeated)", detail="head-tail")
        return
    seq = head[1]
    if op(seq) == "new" and len(seq) > 4:
        seq = seq[4]
    ok = False
    if op(seq) == "comp" and seq[1] in ("list", "gen") and len(seq[3]) == 1 and seq[3][0][1] == grp and not seq[3][0][2]:
        gt = seq[3][0][0]
        ok = (op(gt) == "tuple" and len(gt[1]) == 2 and seq[2] == gt[1][1]) or seq[2] == ("item", gt, ("const", 1))
    if not ok:
        ob.undecide(f"CURIE prefixes of a group are `{show(seq)[:60]}`")


def check_head_tail(ob: Ob, m, line, kw, canon: str, syn: str, seq_expected, what: str):
    h, t = kw.get(canon), kw.get(syn)
    if h is None or t is None:
        ob.violate(m.qualname, where(m, line), f"{m.name} does not set both `{canon}` and `{syn}`: entries of {what} are dropped", detail="head-tail-missing")
        return None
    if not (op(h) == "item" and is_const(h[2], 0)):
        ob.violate(m.qualname, where(m, line), f"`{canon}` is `{show(h)[:50]}`, not the first element of {what}", detail="head")
        return None
    seq = h[1]
    if op(t) == "new" and len(t) > 4:
        t = t[4]
    if op(t) == "comp" and t[1] == "list" and len(t[3]) == 1 and t[2] == t[3][0][0] and all(op(c_) == "cmp" and c_[1] == "!=" and {c_[2], c_[3]} == {t[2], h} for c_ in t[3][0][2]):
        # the rest without repetitions of the canonical entry: such a repetition is rejected by Record itself
        # (a synonym equal to the canonical value), so on every input the loader accepted nothing changes
        t = t[3][0][1]
    if not (op(t) == "slice" and t[1] == seq and is_const(t[2], 1) and is_const(t[3], None) and is_const(t[4], None)):
        ob.violate(m.qualname, where(m, line), f"`{syn}` is `{show(t)[:50]}`, not the rest [1:] of the same sequence as `{canon}`: an entry is dropped or repeated", detail="tail")
        return None
    if seq_expected is not None and seq != seq_expected:
        ob.violate(m.qualname, where(m, line), f"canonical/synonyms are taken from `{show(seq)[:50]}`, not from {what} as given (priority order must be kept)", detail="sequence")
    return seq


@obligation("C13-D5", "from_jsonld term filter (decision table): skips empty keys and keys starting with '@'; takes str values and dict values whose '@prefix' IS True (taking '@id'); ignores everything else", floor=2)
def d5(cx: Cx, ob: Ob) -> None:
    check_jsonld_reader(cx, ob)


def check_jsonld_reader(cx: Cx, ob: Ob) -> None:
    ci = cx.model.cls(CONV, ob.id)
    m = cx.model.find_method(ci, "from_jsonld")
    s = cx.summary(m, ob.id)
    data = ("param", m.params[1].name)
    loops = [ev for ev, ctx in s.walk() if ev.kind == "loop" and not ctx.loops]
    if not loops:
        ob.undecide("from_jsonld has no loop over the context")
        return
    lp = loops[0]
    want_iter = ("call", ("attr", ("item", ("call", PREP, (data,), ()), ("const", "@context")), "items"), (), ())
    if lp.b != want_iter:
        ob.violate(m.qualname, where(m, lp.line), f"from_jsonld iterates `{show(lp.b)[:70]}`, not the items of the prepared document's '@context'", detail="source")
    if op(lp.a) != "tuple" or len(lp.a[1]) != 2:
        ob.undecide("from_jsonld loop target not (key, value)")
        return
    k, v = lp.a[1]
    import itertools

    from ..rules import path_atoms, formula_eval, table_of_code

    tab = table_of_code(cx, lp.body)
    if tab:
        ob.undecide(f"from_jsonld classifies the terms of the context through {tab}: which entries are taken, and with what value, is decided by values the rules do not read")
        return

    isinst = lambda *ts: ("call", ("builtin", "isinstance"), (v, ts[0] if len(ts) == 1 else ("tuple", tuple(ts))), ())  # noqa: E731
    STR, DICT = ("builtin", "str"), ("builtin", "dict")
    GET = ("call", ("attr", v, "get"), (("const", "@prefix"),), ())
    ITEM = ("item", v, ("const", "@prefix"))
    atoms = path_atoms(lp.body)

    def meaning(a):
        """How an atom is decided by a world (key non-empty?, key starts with '@'?, kind of value, '@prefix' is True?)."""
        if a == k:
            return lambda w: w["K"]
        if a == ("call", ("attr", k, "startswith"), (("const", "@"),), ()):
            return lambda w: w["A"]
        if a == ("cmp", "==", k, ("const", "")) or a == ("cmp", "==", ("const", ""), k):
            return lambda w: not w["K"]
        if op(a) == "call" and a[1] == ("builtin", "isinstance") and len(a[2]) == 2 and a[2][0] == v and not a[3]:
            ts = a[2][1][1] if op(a[2][1]) == "tuple" else (a[2][1],)
            if all(t in (STR, DICT) for t in ts):
                names = {"str" if t == STR else "dict" for t in ts}
                return lambda w: w["T"] in names
        if op(a) == "cmp" and a[1] in ("is", "==") and is_const(a[3], True) and a[2] in (GET, ITEM):
            return lambda w: w["P"]
        if op(a) == "cmp" and a[1] in ("is", "==") and ((a[2] == v and is_const(a[3], None)) or (a[3] == v and is_const(a[2], None))):
            return lambda w: w["T"] == "none"
        ID = ("item", v, ("const", "@id"))
        if op(a) == "cmp" and a[1] in ("is", "==") and ((a[2] == ID and is_const(a[3], None)) or (a[3] == ID and is_const(a[2], None))):
            # assumption (JSON-LD 1.1, expanded term definition): the '@id' of a prefix definition is a string
            return lambda w: False
        return None

    sem = {a: meaning(a) for a in atoms}
    free = [a for a in atoms if sem[a] is None]
    for a in free:
        if a in (GET, ITEM):
            ob.violate(m.qualname, where(m, lp.line), "from_jsonld tests '@prefix' by truthiness: terms with \"@prefix\": \"false\" or other truthy non-True values are taken as prefixes", detail="prefix-truthiness")
            sem[a] = lambda w: w["P"]
    free = [a for a in atoms if sem[a] is None]
    if len(free) > 6:
        ob.undecide("from_jsonld: too many unrecognised tests in the term loop")
        return
    n_store = 0
    seen_str = seen_dict = False
    reported = set()

    def report(detail, line, msg, witness=None):
        if (detail, line) not in reported:
            reported.add((detail, line))
            ob.violate(m.qualname, where(m, line), msg, witness=witness, detail=detail)

    for p in lp.body:
        for ev in p.events:
            if ev.kind == "store" and op(ev.a) == "item":
                n_store += 1
                ob.site(f"{where(m, ev.line)} {m.qualname}", f"store {show(ev.a[2])} := {show(ev.b)[:30]}")
                if ev.a[2] != k:
                    report("store-key", ev.line, "from_jsonld stores under something other than the term key")
                str_of_str = ev.b == ("call", ("builtin", "str"), (v,), ()) and any(g.kind == "guard" and g.b is True and op(g.a) == "call" and g.a[1] == ("builtin", "isinstance") and g.a[2][:1] == (v,) and show(g.a[2][1]).rsplit(".", 1)[-1] == "str" for g in p.events)
                if ev.b == v or str_of_str:
                    seen_str = True  # str(v) of a value that IS a str (also of a str subclass such as URIRef) is that string
                elif ev.b == ("item", v, ("const", "@id")):
                    seen_dict = True
                else:
                    report("store-value", ev.line, f"from_jsonld stores `{show(ev.b)[:40]}` for a term: neither the string value nor its '@id'")
    for K, A, T, P in itertools.product((True, False), (True, False), ("str", "dict", "none", "other"), (True, False)):
        if T != "dict" and P:
            continue  # '@prefix' is a property of dict values only
        w = {"K": K, "A": A, "T": T, "P": P}
        want = "value" if (K and not A and T == "str") else "id" if (K and not A and T == "dict" and P) else None
        for fv in itertools.product((True, False), repeat=len(free)):
            asg = {a: sem[a](w) for a in atoms if sem[a] is not None}
            asg.update(dict(zip(free, fv)))
            for p in lp.body:
                gs = [g for g in p.events if g.kind == "guard"]
                if not all(formula_eval(g.a, asg) == g.b for g in gs):
                    continue
                line = gs[-1].line if gs else lp.line
                stores = [ev for ev in p.events if ev.kind == "store" and op(ev.a) == "item"]
                got = None
                for ev in stores:
                    got = "value" if ev.b == v else "id" if ev.b == ("item", v, ("const", "@id")) else "other"
                # a test of '@prefix' on something that is not a dict raises
                if T != "dict" and any(any(x in (GET, ITEM) for x in subterms(g.a)) for g in gs):
                    report("dict-guard", line, "from_jsonld subscripts a value that has not been checked to be a dict")
                    continue
                if got == want or got == "other":
                    continue
                sline = stores[-1].line if stores else line
                if want is None:
                    if not K:
                        report("empty-key", sline, "from_jsonld keeps a term without having excluded the empty key")
                    elif A:
                        report("at-key", sline, "from_jsonld keeps a term without having excluded keys starting with '@' (JSON-LD keywords such as @vocab, @base)")
                    elif got == "value":
                        report("str-guard", sline, "from_jsonld keeps a raw value that has not been checked to be a str")
                    elif T != "dict":
                        report("dict-guard", sline, "from_jsonld subscripts a value that has not been checked to be a dict")
                    else:
                        report("prefix-guard", sline, "from_jsonld takes an expanded term definition without requiring '@prefix' to be true")
                elif got is None:
                    blame = [a for a in free if any(x == k for x in subterms(a))]
                    if blame:
                        report(
                            "extra-key-filter",
                            line,
                            f"from_jsonld keeps a term only if `{show(blame[0])[:50]}` turns out a certain way: well-formed prefixes (non-empty, not starting with '@') are silently dropped, so contexts written by write_jsonld_context do not read back",
                            witness="a prefix such as 'a:b' or 'x-y' is written as a key and skipped on reading",
                        )
                    else:
                        blame_v = [a for a in free if any(x == v for x in subterms(a))]
                        report(
                            "extra-value-filter",
                            line,
                            f"from_jsonld drops a {'string term' if want == 'value' else 'term definition with @prefix true'}" + (f" depending on `{show(blame_v[0])[:50]}`" if blame_v else "") + ": the property takes every string term and every '@prefix': true definition",
                            witness="{'@context': {'at': '@example/'}}: a string-valued term that is dropped",
                        )
                elif want == "value":
                    report("str-guard", sline, "from_jsonld takes the '@id' of a plain string term")
                else:
                    report("str-guard", sline, "from_jsonld keeps a raw value that has not been checked to be a str")
    # nothing rewrites the collected terms afterwards
    targets = {ev.a[1] for p in lp.body for ev in p.events if ev.kind == "store" and op(ev.a) == "item"}
    for ev, ctx in s.walk():
        if ev.kind == "store" and op(ev.a) == "item" and ev.a[1] in targets and not (ctx.loops and ctx.loops[0] is lp):
            ob.violate(
                m.qualname,
                where(m, ev.line),
                f"from_jsonld rewrites the collected terms after the main loop (`{show(ev.a)[:40]} = {show(ev.b)[:40]}`): a term's URI prefix no longer is what the context says",
                witness="{'urn': 'https://example.org/urn/', 'uuid': 'urn:uuid:'}: 'uuid' is rewritten through the unrelated term 'urn'",
                detail="post-processing",
            )
        if ev.kind == "expr" and op(ev.a) == "call" and op(ev.a[1]) == "attr" and ev.a[1][1] in targets and ev.a[1][2] in ("pop", "update", "clear", "popitem", "setdefault") and not (ctx.loops and ctx.loops[0] is lp):
            ob.violate(m.qualname, where(m, ev.line), f"from_jsonld changes the collected terms after the main loop (.{ev.a[1][2]})", detail="post-processing")
    if not seen_str:
        ob.violate(m.qualname, m.where, "from_jsonld never takes plain string terms", detail="no-str-terms")
    if not seen_dict:
        ob.violate(m.qualname, m.where, "from_jsonld never takes expanded term definitions with '@prefix': true", detail="no-dict-terms")


from ..rules import _first_component, _projection, groupby_sortedness  # noqa: E402,F401


@obligation("C13-X8", "the Record model stores prefixes and URI prefixes verbatim: no pydantic string transformation (strip / case folding / length limits) in its model_config or field declarations", floor=1)
def x8(cx: Cx, ob: Ob) -> None:
    from ..rules import record_verbatim

    record_verbatim(cx, ob)


@obligation("C13-X9", "no function on the loading path (_prepare, the from_* / load_* family and what they call) that reads a file or URL is memoised: loading the same location again reads it again", floor=5)
def x9(cx: Cx, ob: Ob) -> None:
    from ..rules import memoised_io

    ci = cx.model.cls(CONV, ob.id)
    roots = [f"{API}._prepare"] + [m.qualname for m in ci.methods.values() if m.name.startswith("from_")] + [q for q in cx.model.functions if q.startswith(f"{API}.load_")]
    memoised_io(cx, ob, roots)


@obligation("C13-X10", "Converter.__init__ reads its (Iterable, possibly one-shot) `records` argument only through one materialising call (sorted/list) and keeps that fresh list - never the caller's list object, never sorted in place", floor=2)
def x10(cx: Cx, ob: Ob) -> None:
    from ..rules import constructor_owns_records

    constructor_owns_records(cx, ob)


@obligation("C13-X6", "LOOKUP None-discipline (shared with C02-D3): lookup results and str|None results are tested with `is None`, never by truthiness - the empty prefix, the empty URI prefix and the empty identifier are legitimate values", floor=40)
def x6(cx: Cx, ob: Ob) -> None:
    from ..rules import scan_none_discipline
    from .c02 import none_scope

    scan_none_discipline(cx, ob, none_scope(cx))


@obligation("C13-X2", "state closure (shared with C05): a converter built by any loader answers from its records alone - no query method writes converter state (no last-match / result caches)", floor=5)
def x2(cx: Cx, ob: Ob) -> None:
    from ..rules import state_closure

    state_closure(cx, ob)


@obligation("C13-X12", "def-use lints over the files this property is anchored in (api.py): no one-shot iterator (generator expression, map, filter, zip, iter, reversed, enumerate, generator call) bound to a name is consumed twice or inside a loop that starts after its creation; no mutable default argument is mutated, stored or returned; no binary search over a sequence that is not kept sorted; no container resized inside the loop that iterates it; no Iterable parameter consumed twice before it is materialised; itertools.groupby only over input sorted by the grouping key", floor=1)
def x12(cx: Cx, ob: Ob) -> None:
    from ..rules import package_lints

    package_lints(cx, ob, {'api.py'})


@obligation("C13-X4", "the strict constructor rejects exactly the record sets in which a name is claimed twice: both duplicate detectors compare by exact equality over all pairs, URI clashes first (shared with C04) - a converter the property says is valid must not be refused with an undocumented DuplicatePrefixes", floor=4)
def x4(cx: Cx, ob: Ob) -> None:
    from .c04 import d1 as c04_order, d2 as c04_matrix

    c04_order(cx, ob)
    c04_matrix(cx, ob)


@obligation("C13-X19", "the Record validators reject only a canonical value among the synonyms of ITS OWN side (shared with C04-D3): a string used as CURIE prefix and as URI prefix of one record is legal, so every loader accepts what upgrade_prefix_map / the priority and reverse maps can denote", floor=3)
def x19(cx: Cx, ob: Ob) -> None:
    from .c04 import d3 as validators

    validators(cx, ob)


@obligation("C13-X30", "expansion path (shared with C02-D1/D2/D5/D6): _split cuts at the first separator, parse_curie splits the unmodified CURIE with self.delimiter, the identifier flows untouched into prefix_map[prefix] + identifier and expand / expand_pair funnel into it - 'each listed (prefix, URI prefix) pair expands and compresses accordingly' is answered by these query functions, whatever the loader", floor=6)
def x30(cx: Cx, ob: Ob) -> None:
    from .c02 import check_expand_reference, check_expand_wrappers, check_parse_curie_delimiter, check_parse_curie_flow, check_split

    check_split(cx, ob)
    check_parse_curie_delimiter(cx, ob)
    check_parse_curie_flow(cx, ob)
    check_expand_reference(cx, ob)
    check_expand_wrappers(cx, ob)


@obligation("C13-X31", "compression path (shared with C01-D2/D3/D4): parse_uri asks the trie for the longest stored prefix of the unmodified URI and returns the rest, compress joins that with self.delimiter and fails only when nothing matched, is_uri is a None-test of it - 'each listed (prefix, URI prefix) pair expands and compresses accordingly' is answered by these query functions, whatever the loader", floor=6)
def x31(cx: Cx, ob: Ob) -> None:
    from .c01 import check_parse_uri_lookup, check_remainder, curie_join_check, format_curie_check, is_parse_uri_of, is_uri_check

    check_parse_uri_lookup(cx, ob)
    check_remainder(cx, ob)
    curie_join_check(cx, ob, "compress", is_parse_uri_of("uri"), "self.parse_uri(uri, ...)")
    format_curie_check(cx, ob)
    is_uri_check(cx, ob)


@obligation("C13-X3", "no memoised derived values (cached_property / lru_cache) on Record, Reference or Converter objects (shared with C05): loaders may be handed Record objects that another converter has already indexed and merged into - a cached view of their name lists makes the new converter differ from one loaded from the equivalent dictionaries", floor=3)
def x3(cx: Cx, ob: Ob) -> None:
    from ..rules import cached_derivations

    cached_derivations(cx, ob)


@obligation("C13-X5", "no memoised factory on the loading path hands the same mutable object (a Record, a table) to several converters (shared with C10-D5): 'each listed pair' of the data given NOW - a record shared with a converter loaded earlier carries whatever was merged into it there", floor=1)
def x5(cx: Cx, ob: Ob) -> None:
    from .c10 import d5 as memoised_factories

    memoised_factories(cx, ob)


@obligation("C13-X7", "IDX (shared with C01/C02): 'each listed (prefix, URI prefix) pair expands and compresses accordingly' - every loader ends in the constructor, whose lookup tables hold every name of every record, unconditionally and completely, on the constructor path and in _index", floor=4)
def x7(cx: Cx, ob: Ob) -> None:
    from .c01 import check_table_roles

    check_table_roles(cx, ob, ["prefix_map", "synonym_to_prefix", "reverse_prefix_map", "trie"])
