"""C20 - the W3C validators accept exactly the documented grammar (decided for all strings)."""

from __future__ import annotations

from ..analyses.relang import Lang, Unsupported, complement, equivalent, inter, minimise, union
from ..analyses.strlang import StrLang, build_alphabet, module_regexes, module_strings
from ..model import AnalysisError
from ..report import Cx, Ob, describe, obligation, thorough_extra

describe(
    "C20",
    "proof",
    "Complete decision for all strings: the accepted language of each validator is computed from its source (regex constants folded from "
    "the module AST, match/fullmatch/search semantics, partition views, early returns) as a DFA over a partition of all 1 114 112 code "
    "points, and compared for language EQUALITY with a reference automaton written independently from the property text; a failure "
    "prints the shortest distinguishing string and which side accepts it.",
    ["CPython ast", "re._parser as the reference parse of the patterns", "the sre engine conforms to the modelled match/fullmatch/$ semantics (validated in the thorough tier against stdlib re on all short strings over class representatives)", "str.isspace == \\s on all code points"],
    ["inputs are str"],
    ["nothing: the accepted language is decided exactly"],
)

W3C = "curies.w3c"
CHECKER = "/venv/bin/python -m curies_verif C20 --tier quick"


def setup(cx: Cx, ob: Ob):
    mod = cx.model.module(W3C)
    regs = module_regexes(cx.model, mod)
    strs = module_strings(cx.model, mod)
    pats = list(regs.values()) + [(s, 0) for n, s in strs.items() if n.endswith("PATTERN")]
    ok = []
    for p, fl in pats:
        try:
            import re._parser as P

            P.parse(p, fl)
            ok.append((p, fl))
        except Exception:  # noqa: BLE001
            continue
    import ast as _ast

    kinds = set()
    for f in mod.functions.values():
        for n in _ast.walk(f.node):
            if isinstance(n, _ast.Call) and isinstance(n.func, _ast.Attribute) and n.func.attr in ("casefold", "lower", "upper") and not n.args:
                kinds.add(n.func.attr)
    # every character set the code mentions (module constants that fold to a collection of single characters,
    # short string literals inside the validators) becomes an atom, so that membership in it is exact
    char_sets: list[str] = []
    for name in mod.constants:
        try:
            v = cx.model.const_value(mod, name)
        except Exception:  # noqa: BLE001
            continue
        if isinstance(v, (set, frozenset, list, tuple)) and v and all(isinstance(x, str) and len(x) == 1 for x in v):
            char_sets.append("".join(sorted(v)))
    for f in mod.functions.values():
        for n in _ast.walk(f.node):
            if isinstance(n, _ast.Constant) and isinstance(n.value, str) and 0 < len(n.value) <= 40 and n is not getattr(f.node.body[0], "value", None):
                char_sets.append(n.value)
                char_sets.extend(n.value)
    preds = set()
    for f in mod.functions.values():
        for n in _ast.walk(f.node):
            if isinstance(n, _ast.Call) and isinstance(n.func, _ast.Attribute) and n.func.attr in ("isalpha", "isalnum", "isdigit", "isdecimal", "isnumeric") and not n.args:
                preds.add(n.func.attr)
    alpha = build_alphabet(ok + [(r"[A-Za-z_][A-Za-z0-9._\-]*", 0)], ":[]/\n", kinds, char_sets, preds)
    sl = StrLang(cx.model, mod, alpha)
    sl.fold_kinds = kinds
    sl.pred_kinds = preds
    return mod, sl


def reference_languages(sl: StrLang):
    """PREFIX, REF, CURIE written from the property statement (not from the code)."""
    L = sl.L
    PREFIX = L.regex(r"[A-Za-z_][A-Za-z0-9._\-]*")
    NOWS = L.star(sl.alpha.all - sl.WS)
    SL = L.literal("/")
    REF = minimise(inter(NOWS, complement(L.concat(SL, SL, L.SIGMA_STAR))))
    NOCOL = L.free_of(":")
    COL = L.literal(":")
    with_colon = L.concat(inter(union(L.EPS, PREFIX), NOCOL), COL, REF)
    bare = inter(NOCOL, REF)
    CURIE = minimise(inter(inter(L.free_of("["), L.free_of("]")), inter(complement(sl.BLANK), union(with_colon, bare))))
    return PREFIX, REF, CURIE


def compare(cx: Cx, ob: Ob, fname: str, which: str, required: bool = True, advisory_unless: str | None = None) -> None:
    mod, sl = setup(cx, ob)
    if fname not in mod.functions:
        if required:
            raise AnalysisError(f"validator {fname} not found", ob.id)
        ob.site(f"src/curies/w3c.py {W3C}", f"{fname} absent (helper inlined): nothing to compare")
        return
    fn = mod.functions[fname]
    cx.functions_analysed.add(fn.qualname)
    from ..analyses.relang import witness
    from ..analyses.strlang import Raises

    try:
        got = sl.lang_true(fname)
    except Raises as e:
        PREFIX, REF, CURIE = reference_languages(sl)
        ref = {"PREFIX": PREFIX, "REF": REF, "CURIE": CURIE}[which]
        w = witness(inter(e.lang, ref))
        if w is not None:
            word = sl.alpha.word(w)
            ob.site(f"{fn.where} {fn.qualname}", "an unpacking on the way to the answer can fail")
            ob.violate(fn.qualname, fn.where, f"{fname} raises for {word!r}, which the documented grammar ({which}) accepts: {e}", witness=f"{word!r} (code points {[hex(ord(c)) for c in word]})", detail="raises")
        else:
            ob.undecide(f"{fname}: {e}")
        return
    except Unsupported as e:
        ob.undecide(f"{fname}: {e}")
        return
    PREFIX, REF, CURIE = reference_languages(sl)
    ref = {"PREFIX": PREFIX, "REF": REF, "CURIE": CURIE}[which]
    same, only_code, only_spec = equivalent(got, ref)
    ob.site(f"{fn.where} {fn.qualname}", f"L_true has {got.n} DFA states over {sl.alpha.n} alphabet classes; reference {which} has {ref.n}; patterns used: {sorted(set(sl.used))}")
    if not same and advisory_unless is not None:
        # an internal helper is judged by what its caller makes of it: a helper that relies on a precondition the
        # caller establishes is no defect as long as the public validator decides the documented language
        try:
            pub = sl.lang_true(advisory_unless)
            _, _, CURIE_ = reference_languages(sl)
            if equivalent(pub, CURIE_)[0]:
                ob.site(f"{fn.where} {fn.qualname}", f"{fname} alone differs from {which} (it relies on a precondition), but {advisory_unless} decides the documented language")
                return
        except Unsupported as e:
            ob.undecide(f"{fname} alone differs from {which}; whether {advisory_unless} makes up for it is not decided ({e})")
            return
    if not same:
        if only_code is not None:
            w = sl.alpha.word(only_code)
            ob.violate(fn.qualname, fn.where, f"{fname} accepts {w!r}, which the documented grammar ({which}) rejects", witness=f"shortest string accepted by the code only: {w!r} (code points {[hex(ord(c)) for c in w]})", detail=f"code-only")
        if only_spec is not None:
            w = sl.alpha.word(only_spec)
            ob.violate(fn.qualname, fn.where, f"{fname} rejects {w!r}, which the documented grammar ({which}) accepts", witness=f"shortest string accepted by the grammar only: {w!r} (code points {[hex(ord(c)) for c in w]})", detail=f"spec-only")


@obligation("C20-D1", "L_true(is_w3c_prefix) = PREFIX = [A-Za-z_][A-Za-z0-9._-]* exactly (DFA equivalence over all code points)", floor=1)
def d1(cx: Cx, ob: Ob) -> None:
    compare(cx, ob, "is_w3c_prefix", "PREFIX")


@obligation("C20-D2", "L_true(_is_w3c_luid) = REF = whitespace-free strings not starting with '//' (if the helper exists)", floor=1)
def d2(cx: Cx, ob: Ob) -> None:
    compare(cx, ob, "_is_w3c_luid", "REF", required=False, advisory_unless="is_w3c_curie")


@obligation("C20-D3", "L_true(is_w3c_curie) = CURIE: no brackets, not blank, and ([NCName] ':' REF split at the first colon, or a colon-free REF)", floor=1)
def d3(cx: Cx, ob: Ob) -> None:
    compare(cx, ob, "is_w3c_curie", "CURIE")


@thorough_extra("C20")
def validate_regex_model():
    """Validate the ANALYSER'S model of the regex engine (not the code under test).

    For every pattern constant of curies.w3c and every method (match / fullmatch / search) the
    automaton built by RELANG is compared with stdlib ``re`` on all strings up to length 4 over one
    representative per alphabet class.  ``curies`` is not imported; only ``re`` runs, on pattern
    strings read from the source text.
    """
    import itertools
    import re
    import time

    from ..model import Model

    t0 = time.time()
    model = Model()
    cx = Cx(model, "thorough")
    ob = Ob("C20-model", "model validation")
    mod, sl = setup(cx, ob)
    from ..analyses.strlang import module_regexes, module_strings

    pats = {p for p, _ in module_regexes(model, mod).values()} | {s for n, s in module_strings(model, mod).items() if n.endswith("PATTERN")}
    pats.add(r"[A-Za-z_][A-Za-z0-9._\-]*")
    reps = [chr(c) for c in sl.alpha.reps]
    n = bad = 0
    rows = []
    maxlen = 4 if sl.alpha.n <= 16 else 3
    for pat, fl in sorted((p, f) for p in pats for f in (0, re.ASCII)):
        try:
            rx = re.compile(pat, fl)
        except re.error:
            continue
        for meth in ("match", "fullmatch", "search"):
            try:
                d = sl.L.regex(pat, meth, fl)
            except Unsupported as e:
                rows.append({"pattern": pat, "method": meth, "status": f"unsupported: {e}"})
                continue
            mism = 0
            for L in range(0, maxlen + 1):
                for tup in itertools.product(range(sl.alpha.n), repeat=L):
                    s = "".join(reps[c] for c in tup)
                    n += 1
                    if d.accepts(tup) != bool(getattr(rx, meth)(s)):
                        mism += 1
                        if mism <= 3:
                            print(f"ANALYSIS-ERROR property=C20 obligation=regex-model reason=model of {meth}({pat!r}) disagrees with stdlib re on {s!r}")
            bad += mism
            rows.append({"pattern": pat, "flags": "ASCII" if fl else "", "method": meth, "dfa_states": d.n, "mismatches": mism})
    extra = {"regex_model_validation": {"strings_compared": n, "mismatches": bad, "alphabet_classes": sl.alpha.n, "max_length": maxlen, "rows": rows, "wall_s": round(time.time() - t0, 2)}}
    print(f"regex model validation: {n} (pattern, method, string) comparisons against stdlib re, {bad} mismatches")
    return (2 if bad else 0), extra


@obligation("C20-X12", "def-use lints over the files this property is anchored in (api.py, w3c.py): no one-shot iterator (generator expression, map, filter, zip, iter, reversed, enumerate, generator call) bound to a name is consumed twice or inside a loop that starts after its creation; no mutable default argument is mutated, stored or returned; no binary search over a sequence that is not kept sorted; no container resized inside the loop that iterates it; no Iterable parameter consumed twice before it is materialised; itertools.groupby only over input sorted by the grouping key", floor=1)
def x12(cx: Cx, ob: Ob) -> None:
    from ..rules import package_lints

    package_lints(cx, ob, {'api.py', 'w3c.py'})


@thorough_extra("C20")
def validate_fold_model():
    """Validate the analyser's model of str.casefold / lower / upper views (preimage automata) against
    the real str methods: for every pattern constant and every code point whose image differs from
    itself, alone and embedded, the lifted automaton must agree with re.fullmatch(pattern, f(s))."""
    import re
    import time

    from ..analyses.strlang import StrLang, build_alphabet, module_regexes, module_strings
    from ..model import Model

    t0 = time.time()
    model = Model()
    mod = model.module(W3C)
    pats = sorted({p for p, _ in module_regexes(model, mod).values()} | {s for n, s in module_strings(model, mod).items() if n.endswith("PATTERN")} | {r"[a-z_][a-z0-9\.\-_]*"})
    kinds = {"casefold", "lower", "upper"}
    alpha = build_alphabet([(p_, 0) for p_ in pats], ":[]/\n", kinds)
    sl = StrLang(model, mod, alpha)
    sl.fold_kinds = kinds
    n = bad = 0
    changed = [cp for cp in range(0x110000) if not (0xD800 <= cp <= 0xDFFF) and (chr(cp).casefold() != chr(cp) or chr(cp).lower() != chr(cp) or chr(cp).upper() != chr(cp))]
    for pat in pats:
        try:
            rx = re.compile(pat)
            base = sl.L.regex(pat, "fullmatch")
        except Exception:  # noqa: BLE001
            continue
        for kind in sorted(kinds):
            lifted = sl.lift(base, ("fold", kind, ("whole",)))
            f = getattr(str, kind)
            for cp in changed:
                for s_ in (chr(cp), "a" + chr(cp), chr(cp) + "1"):
                    n += 1
                    got = lifted.accepts([alpha.cls_of(x) for x in s_])
                    want = bool(rx.fullmatch(f(s_)))
                    if got != want:
                        bad += 1
                        if bad <= 3:
                            print(f"ANALYSIS-ERROR property=C20 obligation=fold-model reason=model of {kind}() under {pat!r} disagrees with str.{kind} on {s_!r}")
    print(f"fold model validation: {n} (pattern, method, string) comparisons against str.casefold/lower/upper, {bad} mismatches")
    return (2 if bad else 0), {"fold_model_validation": {"strings_compared": n, "mismatches": bad, "code_points_with_nontrivial_image": len(changed), "wall_s": round(time.time() - t0, 2)}}
