"""C09 - chain is a priority union of converters and get_subconverter a restriction."""

from __future__ import annotations

from ..report import Cx, Ob, describe, obligation
from ..rules import API, CONV, CURIE_SIDE, Prov, cmp_cover, where
from ..summ import describe_path
from ..terms import callee_name, is_const, op, show, subterms
from .c05 import check_match_record, check_merge

describe(
    "C09",
    "other",
    "Shape of the fold in chain (ValueError on an empty sequence, converters and their records in the given order, one accumulator, "
    "add_record(..., case_sensitive=<own parameter>, merge=True)), priority and grouping through the shared _merge/_match_record "
    "obligations of C05, the synonym-inclusive filter of get_subconverter, and propagation of the source converter's delimiter into "
    "every derived converter.",
    ["CPython ast"],
    [],
    ["the set-level union laws (nothing lost, nothing invented, case-insensitive disjointness)"],
)


def _skipped_only_when_owned_by_one(s, body, acc, rec) -> bool:
    """Every loop path that does NOT add the record has passed tests saying: all CURIE-side names of the record are
    sent by acc.synonym_to_prefix / prefix-owner lookups, and all URI-side names by acc.reverse_prefix_map, to the SAME
    non-None target.  With tables that agree with the records (C05) that record holds every name literally, so
    add_record(.., merge=True) would change nothing."""
    from ..rules import URI_SIDE

    if body is None:
        return False
    recs_ = {rec}
    r_ = rec
    while op(r_) == "call" and op(r_[1]) == "attr" and r_[1][2] in ("model_copy", "copy"):
        r_ = r_[1][1]
        recs_.add(r_)

    def side_of(lst):
        if op(lst) not in ("list", "tuple"):
            return None
        fields = set()
        for e in lst[1]:
            x = e[1] if op(e) == "star" else e
            if op(x) != "attr" or x[1] not in recs_:
                return None
            fields.add(x[2])
        return "curie" if fields == set(CURIE_SIDE) else "uri" if fields == set(URI_SIDE) else None

    skipping = [p_ for p_ in body if (p_.out is None or p_.out[0] == "continue") and not any(isinstance(t2, tuple) and any(op(c2) == "call" and op(c2[1]) == "attr" and c2[1][2] in ("add_record", "append") for c2 in subterms(t2)) for e2 in p_.events for t2 in (e2.a, e2.b))]
    if not skipping:
        return False
    for p_ in skipping:
        targets = {"curie": set(), "uri": set()}
        for g in p_.events:
            if g.kind != "guard" or g.b is not True:
                continue
            for c in subterms(g.a):
                if op(c) == "call" and c[1] == ("builtin", "all") and len(c[2]) == 1 and op(c[2][0]) == "comp" and len(c[2][0][3]) == 1 and not c[2][0][3][0][2]:
                    comp = c[2][0]
                    v_, src_, _ = comp[3][0]
                    sd = side_of(src_)
                    e_ = comp[2]
                    if sd and op(e_) == "cmp" and e_[1] == "==":
                        for look, tgt in ((e_[2], e_[3]), (e_[3], e_[2])):
                            if op(look) == "call" and callee_name(look) == "get" and look[2] == (v_,) and op(look[1][1]) == "attr" and look[1][1][1] == acc:
                                table = look[1][1][2]
                                if (sd == "curie" and table == "synonym_to_prefix") or (sd == "uri" and table == "reverse_prefix_map"):
                                    targets[sd].add(tgt)
        common = targets["curie"] & targets["uri"]
        not_none = any(g.kind == "guard" and ((g.b is False and op(g.a) == "cmp" and g.a[1] == "is" and g.a[2] in common and is_const(g.a[3], None)) or (g.b is True and op(g.a) == "cmp" and g.a[1] == "is not" and g.a[2] in common)) for g in p_.events)
        if not common or not not_none:
            return False
    return True


def fast_appends(cx: Cx, ob: Ob, fn, s) -> None:
    """A record put into the accumulator's ``records`` directly (a fast path around add_record) shares no name with
    what is there: the tests in front of the append must ask the accumulator's tables about EVERY name of the record -
    canonical prefix and each synonym in synonym_to_prefix / prefix_map, canonical URI prefix and each synonym in
    reverse_prefix_map / the trie - and the shortcut is exact comparison, so it needs case_sensitive to be true."""
    from ..rules import URI_SIDE, guard_atoms

    for ev, ctx in s.walk():
        if not (ev.kind == "expr" and op(ev.a) == "call" and callee_name(ev.a) == "append" and op(ev.a[1]) == "attr" and op(ev.a[1][1]) == "attr" and ev.a[1][1][2] == "records" and ev.a[2]):
            continue
        acc, rec = ev.a[1][1][1], ev.a[2][0]
        prov = Prov(s)
        covered = {"curie": set(), "uri": set()}
        case_ok = False
        for a, pol in guard_atoms(ctx.guards):
            if a == ("param", "case_sensitive") and pol is True:
                case_ok = True
            tests = []
            if pol is False and op(a) == "cmp" and a[1] == "in":
                tests.append((a[2], a[3]))
            if pol is False and op(a) == "call" and a[1] == ("builtin", "any") and len(a[2]) == 1 and op(a[2][0]) == "comp" and len(a[2][0][3]) == 1:
                comp = a[2][0]
                v_, src_, conds_ = comp[3][0]
                if not conds_ and op(comp[2]) == "cmp" and comp[2][1] == "in" and comp[2][2] == v_:
                    prov.add_binding(v_, src_)
                    tests.append((v_, comp[2][3]))
            for needle, table in tests:
                if not (op(table) == "attr" and table[1] == acc):
                    continue
                side = "curie" if table[2] in ("synonym_to_prefix", "prefix_map") else "uri" if table[2] in ("reverse_prefix_map", "trie") else None
                if side is None:
                    continue
                for r_, f_ in prov.fields(needle):
                    if r_ == rec:
                        covered[side].add(f_)
        ob.site(f"{where(fn, ev.line)} {fn.qualname}", f"direct append to the accumulator's records; names asked about: {sorted(covered['curie'] | covered['uri'])}")
        missing = sorted((set(CURIE_SIDE) - covered["curie"]) | (set(URI_SIDE) - covered["uri"]))
        if missing and not (covered["curie"] | covered["uri"]):
            ob.undecide(f"{fn.name} appends records directly (bypassing add_record) under a test that does not ask the accumulator's own tables (a local record of the names seen, ..): that the test implies there is nothing to merge is not decided")
        elif missing:
            ob.violate(
                fn.qualname,
                where(fn, ev.line),
                f"{fn.name} appends a record to the accumulator without add_record after asking its tables only about {sorted(covered['curie'] | covered['uri'])}: a record tied to an earlier one through {missing} is appended as a record of its own instead of being merged - the shared name then has two owners and `_index` re-points it",
                witness="c2 holds Record(prefix='chebiid', uri_prefix=EBI, uri_prefix_synonyms=[OBO]) and OBO is CHEBI's URI prefix in c1: chain([c1, c2]) keeps two records",
                detail="fast-append-cover:" + "+".join(missing),
            )
        elif not case_ok:
            ob.violate(fn.qualname, where(fn, ev.line), f"{fn.name} takes the exact-match shortcut around add_record also when case_sensitive is false: names equal up to case are not merged", detail="fast-append-case")


@obligation("C09-D1", "shape of the fold: chain raises ValueError on an empty sequence, iterates converters and their records in the given order, and merges every record into one accumulator with its own case_sensitive and merge=True", floor=1)
def d1(cx: Cx, ob: Ob) -> None:
    fn = cx.fn(f"{API}.chain", ob.id)
    s = cx.summary(fn, ob.id)
    convs = ("param", fn.params[0].name)
    fast_appends(cx, ob, fn, s)
    # empty check
    ok = False
    for t, ctx in s.raises():
        name = callee_name(t) if op(t) == "call" else (t[1] if op(t) in ("builtin", "cls") else None)
        if name and (name == "ValueError" or cx.model.is_subclass(name.rsplit(".", 1)[-1], "ValueError")):
            for g in ctx.guards:
                if g.kind == "guard" and ((g.a == convs and g.b is False) or (op(g.a) == "cmp" and any(x == convs for x in subterms(g.a)))):
                    ok = True
                # the emptiness test on a copy of the sequence from which only non-converters (None) were dropped
                if g.kind == "guard" and g.b is False and op(g.a) in ("comp", "new", "call") and any(x == convs for x in subterms(g.a)):
                    ok = True
    if not ok:
        ob.violate(fn.qualname, fn.where, "chain does not raise ValueError on an empty sequence of converters", detail="empty")
    # the other ValueError - a later record bridging two earlier ones - comes out of add_record and has to leave chain:
    # a handler around the fold that catches it and does not raise turns "raises ValueError" into "drops the record"
    import ast as _ast

    for n in _ast.walk(fn.node):
        if not isinstance(n, _ast.Try):
            continue
        if not any(isinstance(c, _ast.Call) and isinstance(c.func, _ast.Attribute) and c.func.attr in ("add_record", "add_prefix") for st in n.body for c in _ast.walk(st)):
            continue
        for h in n.handlers:
            names = [] if h.type is None else [_ast.unparse(x).rsplit(".", 1)[-1] for x in (h.type.elts if isinstance(h.type, _ast.Tuple) else [h.type])]
            catches = h.type is None or any(x in ("ValueError", "Exception", "BaseException") for x in names)
            if catches and not any(isinstance(x, _ast.Raise) for st in h.body for x in _ast.walk(st)):
                ob.violate(
                    fn.qualname,
                    where(fn, h.lineno),
                    f"chain folds the records inside try / except {', '.join(names) or '<everything>'} and the handler does not raise: the ValueError add_record raises for a record that bridges two earlier ones is swallowed, the record is dropped and its prefixes and URI prefixes are missing from the result",
                    witness="chain([c1, c2]) where a record of c2 shares a prefix with one record of c1 and a URI prefix with another: no error, the record's other names are lost",
                    detail="swallowed-rejection",
                )
    # a return that does not come out of the fold (no add_record on its path): the records of the inputs reach the
    # result without being matched against each other - with case_sensitive=False records equal up to case stay apart
    from ..rules import guard_atoms as _ga0

    for p_ in s.paths:
        if p_.out is None or p_.out[0] != "return":
            continue
        def _has_add(events):
            for e in events:
                for t_ in (e.a, e.b):
                    if isinstance(t_, tuple) and any(op(x) == "call" and op(x[1]) == "attr" and x[1][2] == "add_record" for x in subterms(t_)):
                        return True
                if e.body and any(_has_add(q.events) for q in e.body):
                    return True
            return False
        if _has_add(p_.events):
            continue
        t_ret = p_.out[1]
        if not any(x == convs for x in subterms(t_ret)):
            continue
        atoms0 = _ga0([g for g in p_.events if g.kind == "guard"])
        if any(a == ("param", "case_sensitive") and pol is True for a, pol in atoms0):
            ob.undecide(f"chain returns `{show(t_ret)[:50]}` without folding when case_sensitive is set and `{show(atoms0[-1][0])[:40]}`: that nothing would have been merged is not decided")
        else:
            ob.violate(
                fn.qualname,
                where(fn, p_.out[2]),
                f"chain returns `{show(t_ret)[:60]}` on a path that never folds the records through add_record, whatever case_sensitive is: chain([c], case_sensitive=False) keeps records of c apart whose prefixes are equal up to case",
                witness="chain([c], case_sensitive=False) with records GO and go in c keeps both",
                detail="bypass-fold",
            )
    adds = [(c, ev, ctx) for c, ev, ctx in s.calls("add_record")]
    if not adds:
        # maybe delegates to add_prefix / builds records differently
        ob.undecide("chain does not fold with add_record")
        return
    for c, ev, ctx in adds:
        ob.site(f"{where(fn, ev.line)} {fn.qualname}", show(c)[:80])
        kw = dict(c[3])
        if not is_const(kw.get("merge"), True) and not (len(c[2]) > 2 and is_const(c[2][2], True)):
            ob.violate(fn.qualname, where(fn, ev.line), "chain adds records without merge=True: overlapping converters cannot be chained", detail="merge")
        cs = kw.get("case_sensitive") or (c[2][1] if len(c[2]) > 1 else None)
        if cs != ("param", "case_sensitive"):
            ob.violate(fn.qualname, where(fn, ev.line), f"chain does not pass its own case_sensitive to add_record ({show(cs) if cs else 'default'})", detail="case-forward")
        loops = ctx.loops
        if len(loops) == 1:
            it = loops[0].b
            # for record in itertools.chain.from_iterable(c.records for c in converters): same order as the nested loops
            if op(it) == "call" and op(it[1]) == "ext" and it[1][1] == "itertools.chain.from_iterable" and len(it[2]) == 1 and op(it[2][0]) == "comp" and len(it[2][0][3]) == 1:
                comp = it[2][0]
                ctgt, csrc, cifs = comp[3][0]
                if comp[2] == ("attr", ctgt, "records") and not cifs:
                    from ..summ import Ev as _Ev

                    outer = _Ev("loop", loops[0].line, ctgt, csrc)
                    inner = _Ev("loop", loops[0].line, loops[0].a, ("attr", ctgt, "records"))
                    loops = (outer, inner)
        if len(loops) == 1:
            it1 = loops[0].b
            if op(it1) == "new" and len(it1) > 4:
                it1 = it1[4]
            if op(it1) == "call" and it1[1] in (("builtin", "sorted"), ("builtin", "reversed")) and it1[2] and any(op(x) == "attr" and x[2] == "records" for x in subterms(it1[2][0])) and any(x == convs for x in subterms(it1[2][0])):
                ob.violate(
                    fn.qualname,
                    where(fn, loops[0].line),
                    f"chain folds the records of all converters in the order of `{show(it1)[:60]}`: a stable sort keeps the converters' order only among records with equal keys, so a later converter's record that sorts first becomes the canonical one - priority must follow the given order (earlier converters win)",
                    witness="chain([c1 with uniprot (synonym UP), c2 with UP]): UP sorts before uniprot and becomes canonical",
                    detail="order",
                )
                continue
        if len(loops) != 2:
            ob.undecide("chain's fold is not a two-level loop over converters and records")
            continue
        outer, inner = loops
        from ..rules import _strip_views

        # full-slice / list() snapshots iterate the same elements in the same order
        outer = type(outer)(outer.kind, outer.line, outer.a, _strip_views(outer.b), outer.c, outer.body, outer.cov) if _strip_views(outer.b) != outer.b else outer
        inner = type(inner)(inner.kind, inner.line, inner.a, _strip_views(inner.b), inner.c, inner.body, inner.cov) if _strip_views(inner.b) != inner.b else inner
        ob_ = outer.b
        if op(ob_) == "new" and len(ob_) > 4:
            ob_ = ob_[4]
        if op(ob_) == "comp" and ob_[1] in ("list", "gen") and len(ob_[3]) == 1 and ob_[2] == ob_[3][0][0] and ob_[3][0][1] == convs and all(op(c_) == "cmp" and c_[1] in ("is not", "!=") and c_[2] == ob_[2] and is_const(c_[3], None) for c_ in ob_[3][0][2]):
            # the same sequence with the entries that are not converters (None) left out
            outer = type(outer)(outer.kind, outer.line, outer.a, convs, outer.c, outer.body, outer.cov)
        if op(ob_) == "comp" and ob_[1] in ("list", "gen") and len(ob_[3]) == 1 and ob_[2] == ob_[3][0][0] and ob_[3][0][1] == convs and ob_[3][0][2] == (ob_[2],):
            # filtered by the truth value of each converter: every converter is true - unless the class defines
            # __len__ / __bool__, in which case a converter without records is dropped
            cc = cx.model.cls(CONV, ob.id)
            falsy = [d_ for d_ in ("__bool__", "__len__") if cx.model.find_method(cc, d_) is not None]
            if falsy:
                ob.violate(
                    fn.qualname,
                    where(fn, outer.line),
                    f"chain keeps only the converters that are true, and Converter defines {falsy[0]}: a converter without records is left out - chain([Converter([])]) finds nothing to chain and raises, and a leading empty converter no longer decides the delimiter",
                    witness="chain([Converter([])]) raises ValueError instead of returning an empty converter",
                    detail="subset",
                )
            outer = type(outer)(outer.kind, outer.line, outer.a, convs, outer.c, outer.body, outer.cov)
        if outer.b != convs:
            if any(callee_name(x) in ("reversed", "sorted") for x in subterms(outer.b) if op(x) == "call"):
                ob.violate(fn.qualname, where(fn, outer.line), f"chain iterates `{show(outer.b)[:50]}`: priority must follow the given order (earlier converters win)", detail="order")
            elif op(outer.b) == "slice" and not (op(c[1]) == "attr" and op(c[1][1]) == "call" and op(c[1][1][1]) == "cls" and c[1][1][1][1] == CONV and ((c[1][1][2] and op(c[1][1][2][0]) in ("list", "tuple") and not c[1][1][2][0][1]) or op(dict(c[1][1][3]).get("records")) in ("list", "tuple"))):
                # the accumulator is not an empty converter: the converters left out of the loop may have been
                # taken over in another way (copied wholesale)
                from ..rules import guard_atoms as _ga

                if any(a_ == ("param", "case_sensitive") and pol_ is True for a_, pol_ in _ga(ctx.guards)):
                    ob.undecide(f"chain folds only `{show(outer.b)[:40]}` into an accumulator that does not start empty (`{show(c[1][1])[:50]}`): whether it already holds the rest is not decided")
                else:
                    ob.violate(
                        fn.qualname,
                        where(fn, outer.line),
                        f"chain folds only `{show(outer.b)[:40]}` through add_record and takes the other converter(s) over as they are (`{show(c[1][1])[:50]}`) whatever case_sensitive is: records of that converter whose prefixes are equal up to case are not merged with case_sensitive=False",
                        witness="chain([c], case_sensitive=False) with records CHEBI and chebi in c keeps both",
                        detail="subset",
                    )
            elif op(outer.b) == "slice":
                ob.violate(fn.qualname, where(fn, outer.line), f"chain iterates only `{show(outer.b)[:50]}` of the converters", detail="subset")
            else:
                ob.undecide(f"outer loop of chain iterates `{show(outer.b)[:50]}`")
        if inner.b != ("attr", outer.a, "records"):
            if any(callee_name(x) in ("reversed",) for x in subterms(inner.b) if op(x) == "call"):
                ob.violate(fn.qualname, where(fn, inner.line), "chain iterates each converter's records in reverse", detail="record-order")
            else:
                ob.undecide(f"inner loop of chain iterates `{show(inner.b)[:50]}`")
        # the record added is the loop's record (possibly a copy of it)
        rec = c[2][0] if c[2] else kw.get("record")
        if not any(x == inner.a for x in subterms(rec)):
            ob.violate(fn.qualname, where(fn, ev.line), f"chain adds `{show(rec)[:50]}`, not the record being iterated", detail="record-arg")
        acc0 = c[1][1] if op(c[1]) == "attr" else None
        body = ctx.loops[-1].body if ctx.loops and ctx.loops[-1].body else None

        def _adds(p_, via_add_record):
            for e2 in p_.events:
                for t2 in (e2.a, e2.b):
                    if not isinstance(t2, tuple):
                        continue
                    for c2 in subterms(t2):
                        if op(c2) == "call" and op(c2[1]) == "attr":
                            if c2[1][2] == "add_record" and c2[1][1] == acc0:
                                return True
                            if not via_add_record and c2[1][2] in ("append", "insert") and c2[1][1] == ("attr", acc0, "records"):
                                return True
            return False

        every_path_adds = body is not None and all(_adds(p_, False) for p_ in body if p_.out is None or p_.out[0] == "continue")
        if any(g.kind == "guard" for g in ctx.guards if g.line >= outer.line) and every_path_adds:
            # the record reaches the accumulator on every path of the loop body, on some of them not through
            # add_record: whether the test that selects the fast path implies "nothing to merge" is not a shape
            gs = [g for g in ctx.guards if g.kind == "guard" and g.line >= outer.line]
            ob.undecide(f"chain appends records directly (bypassing add_record) when not `{show(gs[0].a)[:60]}`: that the test implies there is nothing to merge is not decided")
        elif any(g.kind == "guard" for g in ctx.guards if g.line >= outer.line) and _skipped_only_when_owned_by_one(s, body, acc0, rec):
            ob.site(f"{where(fn, ev.line)} {fn.qualname}", "a record is skipped only when the accumulator's tables send every one of its names - both sides - to one and the same record")
        elif any(g.kind == "guard" for g in ctx.guards if g.line >= outer.line):
            gs = [g for g in ctx.guards if g.kind == "guard" and g.line >= outer.line]
            ob.violate(fn.qualname, where(fn, gs[0].line), f"chain adds records only under condition `{show(gs[0].a)[:60]}`: some records of the inputs are dropped", detail="conditional-add")
        # one accumulator returned
        acc = c[1][1] if op(c[1]) == "attr" else None
        # the value returned on the path(s) this call site lies on
        rets = [p_.out[1] for p_ in s.paths if p_.out is not None and p_.out[0] == "return" and (p_ is ctx.path or any(lp in p_.events for lp in ctx.loops[:1]))]
        if rets and not all(t == acc for t in rets if not is_const(t, None)):
            ob.violate(fn.qualname, fn.where, "chain does not return the accumulator it folds into", detail="accumulator")


@obligation("C09-D2", "priority and grouping: _merge keeps the existing canonical fields and adds everything else as synonyms; _match_record compares the full cover (shared with C05)", floor=6)
def d2(cx: Cx, ob: Ob) -> None:
    check_merge(cx, ob)
    check_match_record(cx, ob)


@obligation("C09-D3", "get_subconverter keeps a record iff its canonical prefix or one of its synonyms is in the requested set", floor=1)
def d3(cx: Cx, ob: Ob) -> None:
    fn = cx.fn(f"{CONV}.get_subconverter", ob.id)
    s = cx.summary(fn, ob.id)
    me = ("param", fn.self_name)
    prov = Prov(s)
    found = False
    # the requested names are taken as given: a copy of the request that leaves out anything but None
    # (a truthiness filter drops the empty prefix, which is a legitimate name) selects from less than was asked for
    req0 = ("param", fn.params[1].name)
    seen_f = set()
    for t0, ev0, _ in s.all_terms():
        for x in subterms(t0):
            if op(x) == "comp" and len(x[3]) == 1 and x[3][0][1] == req0 and x[2] == x[3][0][0]:
                for c_ in x[3][0][2]:
                    ok_ = (op(c_) == "cmp" and c_[1] in ("is not", "!=") and c_[2] == x[2] and is_const(c_[3], None)) or (op(c_) == "call" and c_[1] == ("builtin", "isinstance") and c_[2][:1] == (x[2],))
                    if not ok_ and show(c_) not in seen_f:
                        seen_f.add(show(c_))
                        ob.violate(
                            fn.qualname,
                            where(fn, ev0.line),
                            f"get_subconverter drops the requested names for which `{show(c_)[:50]}` fails before selecting: a record asked for by such a name (the empty prefix '' is falsy) is not kept",
                            witness="get_subconverter(['']) on a converter whose default namespace has the prefix '' returns an empty converter",
                            detail="request-filter",
                        )
    for t, ctx in s.returns():
        ctor = [x for x in subterms(t) if op(x) == "call" and ((op(x[1]) == "cls" and x[1][1] == CONV) or x[1] == ("attr", me, "__class__") or x[1] == ("call", ("builtin", "type"), (me,), ()))]
        if not ctor:
            continue
        recs = ctor[0][2][0] if ctor[0][2] else dict(ctor[0][3]).get("records")
        line = ctx.path.out[2]
        ob.site(f"{where(fn, line)} {fn.qualname}", f"records = {show(recs)[:80]}")
        from ..rules import _container_fields, _unset

        conds: list = []
        empty = (op(recs) in ("list", "tuple") and not recs[1]) or (op(recs) == "new" and op(recs[4]) in ("list", "tuple") and not recs[4][1] and not s.mutations_of(recs))
        if empty:
            from ..rules import guard_atoms

            req = ("param", fn.params[1].name)
            if any(pol is False and any(x == req for x in subterms(a)) and op(a) in ("param", "call", "new") for a, pol in guard_atoms(ctx.guards)):
                # shortcut for an empty request: no record can be kept - what the general path builds
                ob.site(f"{where(fn, line)} {fn.qualname}", "empty request -> empty converter")
                continue
        if op(recs) == "comp" and len(recs[3]) == 1:
            tgt, it, ifs = recs[3][0]
            prov.add_binding(tgt, it)
            conds = [(c, True) for c in ifs]
            elt = recs[2]
        elif op(recs) == "new" and recs[1] == "list":
            apps = [(ev, c2) for ev, c2 in s.mutations_of(recs) if ev.kind == "expr" and callee_name(ev.a) == "append" and c2.loops]
            if len({ev.line for ev, _ in apps}) != 1:
                ob.undecide("record selection of get_subconverter is not a single comprehension or append loop")
                continue
            ev0, c0 = apps[0]
            lp = c0.loops[-1]
            tgt, it, elt = lp.a, lp.b, ev0.a[2][0]
            conds = [(g.a, g.b) for g in c0.guards if g.kind == "guard" and g.line >= lp.line]
        else:
            ob.undecide("record selection of get_subconverter is not a single comprehension or append loop")
            continue
        found = True
        from ..rules import _strip_views

        it = _strip_views(it)
        if it != ("attr", me, "records"):
            # selection driven by the requested prefixes: sound only if a record named twice is kept once
            looks_up = any(op(x) == "call" and callee_name(x) == "get_record" for t_ in (elt, it) for x in subterms(t_)) or any(op(x) == "call" and callee_name(x) == "get_record" for c, _ in conds for x in subterms(c))
            # de-duplication must be of RECORDS (a set of the requested prefixes does not help)
            dedupe = any(op(x) == "cmp" and x[1] == "in" and pol is False and any(y == tgt for y in subterms(x[2])) for c, pol in conds for x in subterms(c)) or any(callee_name(x) in ("fromkeys", "values") for x in subterms(recs) if op(x) == "call")
            if looks_up and not dedupe:
                ob.violate(
                    fn.qualname,
                    where(fn, line),
                    f"get_subconverter collects one record per requested prefix (iterating `{show(it)[:40]}`): a record requested by two of its names is collected twice and the strict constructor rejects the result",
                    witness="get_subconverter(['CHEBI', 'chebi']) with chebi a synonym of CHEBI raises DuplicateURIPrefixes",
                    detail="duplicate-records",
                )
            else:
                ob.undecide(f"get_subconverter selects from `{show(it)[:40]}`, not self.records")
            continue
        if not conds:
            ob.violate(fn.qualname, where(fn, line), "get_subconverter does not filter records", detail="no-filter")
            continue
        import itertools

        from ..rules import formula_atoms, formula_eval

        fields = set()
        # the selection condition as one boolean formula over its atomic tests
        lits = [c if pol else ("not", c) for c, pol in conds]
        formula = lits[0] if len(lits) == 1 else ("and", tuple(lits))
        atoms = formula_atoms(formula)

        def classify(a):
            """(record fields the atom compares with the requested set, polarity of the atom that means 'requested')."""
            got, sense = set(), True
            for x in subterms(a):
                if op(x) == "cmp" and x[1] == "in":
                    here = {f for r, f in prov.fields(x[2]) if r == tgt}
                    cont = x[3]
                    if op(cont) == "new" and len(cont) > 4:
                        cont = cont[4]
                    if here == {"prefix"} and op(cont) == "comp" and len(cont[3]) == 1:
                        # the canonical prefix is looked up among the OWNERS of the requested names:
                        # {self.synonym_to_prefix[p] for p in <requested names the converter knows>}
                        q, src, _ = cont[3][0]
                        elt = cont[2]
                        owner = (op(elt) == "item" and elt[1] == ("attr", me, "synonym_to_prefix") and elt[2] == q) or (op(elt) == "call" and callee_name(elt) in ("standardize_prefix", "get", "__getitem__") and elt[2][:1] == (q,))
                        if owner:
                            gp = [y for y in subterms(src) if op(y) == "call" and callee_name(y) == "get_prefixes"]
                            stp = any(y == ("attr", me, "synonym_to_prefix") for y in subterms(src)) or any(y == ("attr", me, "synonym_to_prefix") for c_ in cont[3][0][2] for y in subterms(c_))
                            if stp or any(is_const(dict(y[3]).get("include_synonyms"), True) or (y[2] and is_const(y[2][0], True)) for y in gp):
                                here = set(CURIE_SIDE)  # every name (canonical or synonym) leads to its owner
                            elif not gp:
                                here = set()
                    got |= here
                inter_ops = None
                if op(x) == "call" and op(x[1]) == "attr" and x[1][2] in ("intersection", "isdisjoint") and len(x[2]) == 1:
                    inter_ops = [x[1][1], x[2][0]]
                    if x[1][2] == "isdisjoint":
                        sense = False
                if op(x) == "bin" and x[1] == "&":
                    inter_ops = [x[2], x[3]]
                if inter_ops:
                    for o_ in inter_ops:
                        got |= {f for r, f in _container_fields(prov, _unset(o_)) if r == tgt}
            return got, sense

        info = {a: classify(a) for a in atoms}
        for a in atoms:
            if any(op(x) == "call" and callee_name(x) == "all" for x in subterms(a)) and info[a][0]:
                ob.violate(fn.qualname, where(fn, line), "get_subconverter requires ALL names of a record to be requested, not any", detail="all-vs-any")
            if not info[a][0] and any(y == tgt for y in subterms(a)):
                folded = [y for y in subterms(a) if op(y) == "cmp" and y[1] in ("in", "==") and op(y[2]) == "call" and op(y[2][1]) == "attr" and y[2][1][2] in ("casefold", "lower", "upper", "strip", "title", "swapcase", "capitalize") and not y[2][2]]
                if folded:
                    ob.violate(
                        fn.qualname,
                        where(fn, line),
                        f"get_subconverter selects by `{show(folded[0])[:60]}`: the names are compared after .{folded[0][2][1][2]}(), unconditionally - a record whose names merely look like a requested one (another spelling, which may belong to a different record) is kept as well, so the result holds records nobody asked for",
                        witness="records GO and go: get_subconverter(['go']) returns both",
                        detail=f"transformed-compare:{folded[0][2][1][2]}",
                    )
                    continue
                ob.undecide(f"selection condition `{show(a)[:60]}` of get_subconverter not recognised")
        named = [a for a in atoms if info[a][0]]
        other = [a for a in atoms if not info[a][0]]
        if len(atoms) > 10:
            ob.undecide("selection condition of get_subconverter has too many tests")
            continue

        def kept(match: dict):
            """Is the record kept when exactly the atoms in ``match`` report a requested name?  None if that depends on an unrelated test."""
            vals = set()
            for ov in itertools.product((True, False), repeat=len(other)):
                asg = dict(zip(other, ov))
                for a in named:
                    asg[a] = (info[a][1] if match.get(a) else not info[a][1])
                vals.add(formula_eval(formula, asg))
            return None if len(vals) != 1 else next(iter(vals))

        none_kept = kept({})
        if none_kept is None:
            ob.undecide("get_subconverter: whether a record is kept depends on a test unrelated to its names")
        for a in named:
            k = kept({a: True})
            if k is True and none_kept is not True:
                fields |= info[a][0]
            elif k is False and none_kept is True:
                ob.violate(fn.qualname, where(fn, line), "get_subconverter keeps the records whose names are DISJOINT from the requested prefixes", detail="inverted")
                fields |= info[a][0]
        if none_kept is True and not any(kept({a: True}) is False for a in named):
            ob.violate(fn.qualname, where(fn, line), "get_subconverter keeps records none of whose names is requested", detail="no-filter")
        missing = CURIE_SIDE - fields
        if missing and not ob.undecided:
            ob.violate(fn.qualname, where(fn, line), f"get_subconverter does not test {sorted(missing)} against the requested prefixes: records requested by synonym are dropped", detail="cover:" + "+".join(sorted(missing)))
        extra = fields - CURIE_SIDE
        if extra:
            ob.violate(fn.qualname, where(fn, line), f"get_subconverter also selects by {sorted(extra)}", detail="cover-extra")
        # the kept element is the record itself (or a copy of it)
        if not any(x == tgt for x in subterms(elt)):
            ob.violate(fn.qualname, where(fn, line), "get_subconverter does not keep the selected record", detail="element")
    if not found:
        ob.undecide("get_subconverter does not return Converter(<comprehension>)")


def derived_constructions(cx: Cx, fn):
    s = cx.summary(fn)
    out = []
    me = ("param", fn.self_name) if fn.self_name else None
    for c, ev, ctx in s.calls():
        f = c[1]
        same_class = me is not None and (f == ("attr", me, "__class__") or f == ("call", ("builtin", "type"), (me,), ()))
        if (op(f) == "cls" and f[1] == CONV) or same_class or (f == ("param", "cls") and fn.is_classmethod):
            out.append((c, ev, ctx))
    return out


@obligation("C09-D4", "configuration propagation: a converter derived from existing converters is constructed with the source's delimiter (chain: the first converter's; get_subconverter: self.delimiter)", floor=2)
def d4(cx: Cx, ob: Ob) -> None:
    fn = cx.fn(f"{CONV}.get_subconverter", ob.id)
    me = ("param", fn.self_name)
    for c, ev, ctx in derived_constructions(cx, fn):
        ob.site(f"{where(fn, ev.line)} {fn.qualname}", show(c)[:70])
        d = dict(c[3]).get("delimiter")
        if d is None:
            ob.violate(fn.qualname, where(fn, ev.line), "get_subconverter builds Converter(...) without delimiter=self.delimiter: the sub-converter of a '/'-converter no longer parses its parent's CURIEs", witness="Converter(recs, delimiter='/').get_subconverter(['a']).expand('a/1') is None", detail="delimiter-dropped")
        elif d != ("attr", me, "delimiter"):
            ob.violate(fn.qualname, where(fn, ev.line), f"get_subconverter passes delimiter={show(d)}", detail="delimiter-wrong")
    fn = cx.fn(f"{API}.chain", ob.id)
    convs = ("param", fn.params[0].name)
    for c, ev, ctx in derived_constructions(cx, fn):
        ob.site(f"{where(fn, ev.line)} {fn.qualname}", show(c)[:70])
        d = dict(c[3]).get("delimiter")
        if d is None:
            ob.violate(fn.qualname, where(fn, ev.line), "chain builds its accumulator without a delimiter: chain([c]) is not equivalent to c when c uses a non-default delimiter", witness="chain([Converter(recs, delimiter='/')]).expand('a/1') is None", detail="delimiter-dropped")
        elif not (op(d) == "attr" and d[2] == "delimiter" and any(x == convs for x in subterms(d))):
            ob.violate(fn.qualname, where(fn, ev.line), f"chain passes delimiter={show(d)[:50]}, not a delimiter of its inputs", detail="delimiter-wrong")



@obligation("C09-X16", "bridging records (shared with C05-D3): add_record - through which chain folds every record with merge=True - raises ValueError for a record that matches several existing records whatever the merge flag, merges a single match only with merge set, appends only without a match, and rejects before it mutates", floor=2)
def x16(cx: Cx, ob: Ob) -> None:
    from .c05 import d3 as add_record_guards

    add_record_guards(cx, ob)


@obligation("C09-X1", "OWN (shared with C10): no function that takes a converter stores into, mutates or captures the Record objects of its input - a converter whose records are changed behind its back no longer matches its own lookup tables", floor=6)
def x1(cx: Cx, ob: Ob) -> None:
    from .c10 import check_no_aliasing

    check_no_aliasing(cx, ob)


@obligation("C09-X2", "state closure (shared with C05): all derived converter state is maintained by _index, lookup tables are never rebound after construction, and no query method writes converter state (no stale caches)", floor=5)
def x2(cx: Cx, ob: Ob) -> None:
    from ..rules import state_closure

    state_closure(cx, ob)


@obligation("C09-X3", "no memoised derived values (cached_property / lru_cache) on Record, Reference or Converter objects, which are changed in place or copied with updates", floor=3)
def x3(cx: Cx, ob: Ob) -> None:
    from ..rules import cached_derivations

    cached_derivations(cx, ob)


@obligation("C09-X5", "pairing (shared with C05-D4): every normally returning path of add_record merges or appends and then unconditionally re-indexes the changed record, so the lookup tables never lag behind the records", floor=2)
def x5(cx: Cx, ob: Ob) -> None:
    from .c05 import check_add_record_pairing

    check_add_record_pairing(cx, ob)


@obligation("C09-X7", "IDX (shared with C01/C02): the lookup tables consulted by the chained / restricted converter hold every name of every record, unconditionally and completely, on the constructor path and in _index (converters built incrementally answer like freshly built ones)", floor=4)
def x7(cx: Cx, ob: Ob) -> None:
    from .c01 import check_table_roles

    check_table_roles(cx, ob, ["prefix_map", "synonym_to_prefix", "reverse_prefix_map", "trie"])


@obligation("C09-X8", "the Record model stores prefixes and URI prefixes verbatim: no pydantic string transformation (strip / case folding / length limits) in its model_config or field declarations", floor=1)
def x8(cx: Cx, ob: Ob) -> None:
    from ..rules import record_verbatim

    record_verbatim(cx, ob)


@obligation("C09-X6", "LOOKUP None-discipline (shared with C02-D3): lookup results and str|None results are tested with `is None`, never by truthiness - the empty prefix, the empty URI prefix and the empty identifier are legitimate values", floor=40)
def x6(cx: Cx, ob: Ob) -> None:
    from ..rules import scan_none_discipline
    from .c02 import none_scope

    scan_none_discipline(cx, ob, none_scope(cx))


@obligation("C09-X12", "def-use lints over the files this property is anchored in (api.py): no one-shot iterator (generator expression, map, filter, zip, iter, reversed, enumerate, generator call) bound to a name is consumed twice or inside a loop that starts after its creation; no mutable default argument is mutated, stored or returned; no binary search over a sequence that is not kept sorted; no container resized inside the loop that iterates it; no Iterable parameter consumed twice before it is materialised; itertools.groupby only over input sorted by the grouping key", floor=1)
def x12(cx: Cx, ob: Ob) -> None:
    from ..rules import package_lints

    package_lints(cx, ob, {'api.py'})


@obligation("C09-X13", "records are copied and serialised whole: no model_dump(exclude_unset=True) / model_fields_set anywhere in the package (in-place merges do not update pydantic's fields_set)", floor=1)
def x13(cx: Cx, ob: Ob) -> None:
    from ..rules import no_fields_set_dependence

    no_fields_set_dependence(cx, ob)


@obligation("C09-X4", "'either raises ValueError because a later record bridges two earlier ones, or returns a converter': chain and get_subconverter hand their records to the strict constructor, which must reject exactly the record sets in which a name is claimed by two records - both duplicate detectors compare by exact equality over all pairs of DIFFERENT records (shared with C04-D1/D2); a detector that reports anything else turns a legal union into an undocumented DuplicatePrefixes", floor=4)
def x4(cx: Cx, ob: Ob) -> None:
    from .c04 import d1 as c04_order, d2 as c04_matrix

    c04_order(cx, ob)
    c04_matrix(cx, ob)
