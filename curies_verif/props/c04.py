"""C04 - strict construction enforces one owner per CURIE prefix and per URI prefix."""

from __future__ import annotations

import ast

from ..report import Cx, Ob, describe, obligation
from ..rules import API, CONV, CURIE_SIDE, URI_SIDE, Prov, _container_fields, fewer_than_two, guard_atoms, pair_compare_cover, construct_of_plain_strings, construct_from_full_dump, where
from ..summ import Ctx, describe_path
from ..terms import callee_name, is_const, op, show, substitute, subterms

describe(
    "C04",
    "other",
    "Shape and table clauses of strict construction: the two duplicate detectors run on the full record list, URI clashes raised "
    "first, both before any index is built (ORDER); both detectors enumerate all unordered pairs of records and compare the full "
    "{canonical, synonyms} x {canonical, synonyms} cover of their own side (MATRIX); the Record validators reject a canonical value "
    "inside its own synonym list and every Record is built through the validating constructor; no constructor call in the package "
    "switches strictness off; bimap / reverse_bimap are built from (prefix, uri_prefix) of the records in opposite orientation.",
    ["CPython ast", "itertools.combinations enumerates all unordered pairs", "pydantic runs field validators on construction"],
    [],
    ["the iff over all record collections", "pydantic actually running the validators"],
)

DETECTORS = {"DuplicateURIPrefixes": ("uri", URI_SIDE), "DuplicatePrefixes": ("curie", CURIE_SIDE)}


def find_detectors(cx: Cx, ob: Ob):
    """(raise class -> (detector FunctionInfo, call term, raise line)) from Converter.__init__."""
    init = cx.fn(f"{CONV}.__init__", ob.id)
    s = cx.summary(init, ob.id)
    out = {}
    for t, ctx in s.raises():
        name = callee_name(t) if op(t) == "call" else None
        if name in DETECTORS and op(t) == "call" and t[2]:
            arg = t[2][0]
            if op(arg) == "call" and op(arg[1]) == "func":
                out[name] = (cx.model.functions[arg[1][1]], arg, ctx)
            else:
                out[name] = (None, arg, ctx)
    return init, s, out


@obligation("C04-D1", "ORDER: under strict, the URI detector runs on the full record list and raises before the prefix detector; both dominate every index-building statement", floor=3)
def d1(cx: Cx, ob: Ob) -> None:
    init, s, dets = find_detectors(cx, ob)
    me = ("param", init.self_name)
    for cls in DETECTORS:
        if cls not in dets:
            ob.violate(init.qualname, init.where, f"Converter.__init__ never raises {cls}", detail=f"missing-raise:{cls}")
    # "rejects exactly the record sets in which a name is claimed twice": the constructor has no other way of
    # refusing records - a further raise turns collections without a clash (and every derivation that ends in
    # Converter(records)) into errors the properties do not know
    for o_, ctx_ in s.outcomes():
        if o_ is None or o_[0] != "raise" or (len(o_) > 3 and o_[3]):
            continue
        t_ = o_[1]
        cls_ = t_[1][1].rsplit(".", 1)[-1] if op(t_) == "call" and op(t_[1]) in ("cls", "builtin", "ext") else None
        if cls_ in DETECTORS or cls_ is None:
            continue
        gs_ = [("" if g.b else "not ") + show(g.a)[:50] for g in ctx_.guards if g.kind == "guard"]
        outside = any(g.kind == "guard" and g.b is False and op(g.a) == "call" and g.a[1] == ("builtin", "isinstance") for g in ctx_.guards)
        if outside:
            continue  # an argument of an undocumented type
        ob.violate(
            init.qualname,
            where(init, o_[2]),
            f"Converter.__init__ also raises {cls_} (when {' and '.join(gs_[-2:]) or 'always'}): a record set in which no name is claimed twice is refused - by the constructor, by every loader and by every derivation (remap_*, rewire, chain, get_subconverter, discover) that ends in Converter(records)",
            witness="records whose CURIE prefix contains the delimiter: remap_curie_prefixes({'a': 'ns:a'}) ends in an undocumented ValueError",
            detail=f"constructor-rejects-more:{cls_}",
        )
    if len(dets) < 2:
        return
    # what is stored as self.records
    stored = [ev.b for ev, _ in s.distinct_events("store") if ev.a == ("attr", me, "records")]
    decided_elsewhere: set = set()
    for cls, (fn, call_t, ctx) in dets.items():
        line = ctx.path.out[2]
        ob.site(f"{where(init, line)} {init.qualname}", f"raise {cls}({show(call_t)[:50]})")
        atoms = guard_atoms(ctx.guards)
        flags = {a[1]: pol for a, pol in atoms if op(a) == "param"}
        if flags.get("strict") is not True:
            ob.violate(init.qualname, where(init, line), f"{cls} is not raised under the `strict` test", witness=describe_path(ctx), detail=f"strict-guard:{cls}")
        from ..rules import _strip_views

        def _same(a, b):
            return a == b or _strip_views(a) == _strip_views(b)

        if fn is not None and stored and not (call_t[2] and (call_t[2][0] == ("attr", me, "records") or any(_same(call_t[2][0], x) for x in stored))):
            ob.violate(init.qualname, where(init, line), f"the {cls} detector runs on `{show(call_t[2][0])[:50] if call_t[2] else '?'}`, not on the record list the converter keeps (`{show(stored[0])[:50]}`)", detail=f"detector-arg:{cls}")
        # raised exactly when the detector result is non-empty
        last = [pol for a, pol in atoms if a == call_t]
        if not last:
            # the raise is decided by something other than the detector's own result (a cheaper pre-test that is
            # meant to be equivalent); whether it is equivalent is not a question of shape
            extra = [a for a, pol in atoms if not (op(a) == "param" and a[1] == "strict")]
            ob.undecide(f"{cls} is raised under `{show(extra[-1])[:60] if extra else '?'}`, not under the result of its detector: equivalence of the two tests is not decided")
            decided_elsewhere.add(cls)
        elif last[-1] is not True:
            ob.violate(init.qualname, where(init, line), f"{cls} is not raised exactly when its detector reports duplicates", witness=describe_path(ctx), detail=f"raise-guard:{cls}")
    sp = init.param("strict")
    if sp is None or not (isinstance(sp.default, ast.Constant) and sp.default.value is True):
        ob.violate(init.qualname, init.where, "Converter.__init__ does not default to strict=True: plain Converter(records) and every loader accept duplicate prefixes silently", detail="strict-default")
    uri_call = dets["DuplicateURIPrefixes"][1]
    pre_call = dets["DuplicatePrefixes"][1]
    pctx = dets["DuplicatePrefixes"][2]
    from ..rules import _strip_views as _sv

    def same_det(a, ref):
        """The same detector applied to (a view of) the record list the converter keeps; a helper that orders the
        records has one path per outcome, so the argument term differs between paths."""
        if a == ref:
            return True
        if not (op(a) == "call" and op(ref) == "call" and a[1] == ref[1] and op(a[1]) == "func" and a[2] and ref[2] and a[3] == ref[3]):
            return False
        return a[2][0] == ("attr", me, "records") or any(_sv(a[2][0]) == _sv(x) or a[2][0] == x for x in stored)

    if decided_elsewhere:
        return
    if not any(same_det(a, uri_call) and pol is False for a, pol in guard_atoms(pctx.guards)):
        ob.violate(init.qualname, where(init, pctx.path.out[2]), "DuplicatePrefixes can be raised before the URI-prefix clashes have been checked (URI clashes must be reported first)", witness=describe_path(pctx), detail="order")
    # domination of index building: a path of __init__ that COMPLETES under strict (and so hands out a converter)
    # has passed both detectors with an empty result.  A store made before the checks on a path that then raises
    # is unobservable - the object is never handed out.
    n = 0
    for path in s.paths:
        if path.out is not None and path.out[0] == "raise":
            continue
        stores = [ev for ev in path.events if ev.kind == "store" and op(ev.a) == "attr" and ev.a[1] == me]
        if not stores:
            continue
        gl = [ev for ev in path.events if ev.kind in ("guard", "except")]
        atoms = guard_atoms(gl)
        if any(op(a) == "param" and a[1] == "strict" and pol is False for a, pol in atoms):
            continue
        recs_arg = uri_call[2][0] if uri_call[2] else None
        # pair detectors are vacuous on fewer than two records: such paths need no check
        if any(fewer_than_two(a, pol, recs_arg) is not None for a, pol in atoms):
            continue
        # a false conjunction `strict and <two or more records>`: either way no check is needed
        exempt = False
        for g in gl:
            if g.kind == "guard" and op(g.a) == "and" and g.b is False:
                if all((op(x) == "param" and x[1] == "strict") or fewer_than_two(x, False, recs_arg) is not None for x in g.a[1]):
                    exempt = True
        if exempt:
            continue
        n += len(stores)
        passed = {a for a, pol in atoms if pol is False}
        for name, c in (("URI", uri_call), ("prefix", pre_call)):
            if not any(same_det(a, c) for a in passed):
                ob.violate(init.qualname, where(init, stores[-1].line), f"a strict path of __init__ completes (self.{stores[-1].a[2]} is assigned) without having passed the {name} duplicate check", witness=describe_path(Ctx(tuple(gl), (), (), path, len(path.events))), detail=f"dominate:{name}")
    if n:
        ob.site(f"{init.where} {init.qualname}", f"{n} state assignments dominated by both checks")
    else:
        ob.undecide("no state assignment found on the strict path of __init__")


def _order_views(inner):
    """Strip wrappers that keep every element of a collection (order-only views, full copies)."""
    while True:
        if op(inner) == "call" and inner[1] in (("builtin", "sorted"), ("builtin", "list"), ("builtin", "tuple")) and inner[2]:
            inner = inner[2][0]  # order-only wrappers keep the collection
        elif op(inner) in ("list", "tuple") and len(inner[1]) == 1 and op(inner[1][0]) == "star":
            inner = inner[1][0][1]  # [*records]
        elif op(inner) == "new" and len(inner) > 4 and op(inner[4]) in ("list", "tuple") and len(inner[4][1]) == 1 and op(inner[4][1][0]) == "star":
            inner = inner[4][1][0][1]  # own = [*records]; own.sort(...)
        elif op(inner) == "slice" and is_const(inner[2], None) and is_const(inner[3], None):
            inner = inner[1]
        elif op(inner) == "comp" and inner[1] in ("list", "gen") and len(inner[3]) == 1 and not inner[3][0][2] and _element_copy(inner[2], inner[3][0][0]):
            inner = inner[3][0][1]  # [r.model_copy(deep=True) for r in records]: every record, as a copy
        else:
            return inner


def _element_copy(elt, var) -> bool:
    """``elt`` is the loop variable itself or a full copy of it (model_copy without update, copy / deepcopy)."""
    if elt == var:
        return True
    if op(elt) == "call" and op(elt[1]) == "attr" and elt[1][1] == var and elt[1][2] in ("model_copy", "copy") and not elt[2] and "update" not in dict(elt[3]):
        return True
    return op(elt) == "call" and op(elt[1]) == "ext" and elt[1][1] in ("copy.copy", "copy.deepcopy") and elt[2] == (var,)


def _pair_mode(prov: Prov, s) -> tuple[str, tuple | None, tuple | None, str]:
    """How the detector enumerates record pairs: (mode, recA, recB, description)."""
    for bid, (it, path) in prov.binders.items():
        if op(it) == "call" and op(it[1]) == "ext":
            name = it[1][1]
            if it[2] and not any(op(x) == "param" for x in subterms(it[2][0])):
                continue  # pairs of something derived (a group of equal names, a bucket), not of the records handed in
            if name == "itertools.combinations" and len(it[2]) == 2 and is_const(it[2][1], 2):
                return "all", None, None, "itertools.combinations(records, 2)"
            if name == "itertools.combinations" and len(it[2]) == 2:
                return "bad", None, None, f"itertools.combinations(records, {show(it[2][1])})"
            if name == "itertools.pairwise":
                return "adjacent", None, None, "itertools.pairwise(records)"
            if name == "itertools.permutations":
                return "all", None, None, "itertools.permutations(records, 2)"
        if op(it) == "call" and op(it[1]) == "builtin" and it[1][1] == "zip" and len(it[2]) == 2:
            a, b = it[2]
            if op(b) == "slice" and b[1] == a:
                return "adjacent", None, None, f"zip({show(a)}, {show(b)})"
    return "unknown", None, None, ""


def _record_bvs(prov: Prov) -> list[tuple]:
    out = []
    for bid, (it, path) in prov.binders.items():
        pass
    return out


def _conditional_cover(cx: Cx, ob: Ob, cls: str, fn, s, prov: Prov, side: set) -> None:
    """A detector that takes a SHORTCUT for some pairs of records (compares fewer fields on one arm of a test)
    is complete only if that arm is taken when the skipped lists are known to be empty - for both records."""
    from ..rules import LISTS

    need = {(f, g) for f in side for g in side}
    for lp, lctx in s.walk():
        if lp.kind != "loop" or not (op(lp.b) == "call" and lp.b[1] == ("ext", "itertools.combinations")) or not lp.body:
            continue
        src = lp.b[2][0]
        flags_param = None
        if op(src) == "call" and src[1] == ("builtin", "zip") and len(src[2]) == 2 and op(src[2][0]) == "param":
            flags_param = src[2][0][1]
        # the record terms and (optionally) their flag terms from the loop target ((f1, r1), (f2, r2)) or (r1, r2)
        recs, flag_of = [], {}
        tg = lp.a
        if op(tg) == "tuple" and len(tg[1]) == 2:
            for part in tg[1]:
                if op(part) == "tuple" and len(part[1]) == 2 and flags_param:
                    flag_of[part[1][0]] = part[1][1]
                    recs.append(part[1][1])
                else:
                    recs.append(part)
        if len(recs) != 2:
            continue
        flag_expr = _caller_flag_expr(cx, fn, flags_param) if flags_param else None
        paths_cover = []
        for p in lp.body:
            terms = [t for ev in p.events for t in (ev.a, ev.b) if isinstance(t, tuple)]
            comps = pair_compare_cover(prov, terms)
            pairs = {(x[1], y[1]) if x[0] == recs[0] else (y[1], x[1]) for x, y, _, _ in comps if {x[0], y[0]} == set(recs)}
            pairs |= {(b, a) for a, b in pairs if (a, b) in {(f, f) for f in side}}
            empty = set()  # (record, list field) proven empty on this path
            opaque = False
            for g in p.events:
                if g.kind != "guard" or g.b is not False:
                    continue
                if op(g.a) == "attr" and g.a[1] in recs and g.a[2] in LISTS:
                    empty.add((g.a[1], g.a[2]))
                elif g.a in flag_of:
                    if flag_expr is None:
                        opaque = True
                    else:
                        var, e = flag_expr
                        leaves = []

                        def walk(t):
                            if op(t) == "or":
                                for x in t[1]:
                                    walk(x)
                            elif op(t) == "call" and t[1] == ("builtin", "bool") and len(t[2]) == 1:
                                walk(t[2][0])
                            elif op(t) == "truth":
                                walk(t[1])
                            else:
                                leaves.append(t)

                        walk(e)
                        for lf in leaves:
                            if op(lf) == "attr" and lf[1] == var and lf[2] in LISTS:
                                empty.add((flag_of[g.a], lf[2]))
            if not pairs:
                continue
            missing = {(f, g_) for f, g_ in need - pairs if not ((f in LISTS and (recs[0], f) in empty) or (g_ in LISTS and (recs[1], g_) in empty))}
            paths_cover.append((p, pairs, missing, opaque))
        if len(paths_cover) < 2:
            continue  # no alternative arms: the unconditional cover check below decides
        for p, pairs, missing, opaque in paths_cover:
            if not missing:
                continue
            gl = [g.line for g in p.events if g.kind == "guard"]
            if opaque:
                ob.undecide(f"the {cls} detector takes a shortcut on a flag computed by its caller; which lists are empty then is not established")
                continue
            ob.violate(
                fn.qualname,
                where(fn, gl[-1] if gl else lp.line),
                f"the {cls} detector compares only {sorted(pairs)} for some pairs of records (a shortcut arm) without knowing that the skipped lists {sorted({x for pr in missing for x in pr if x in LISTS})} are empty for both records: clashes through them go undetected",
                witness="two records without CURIE prefix synonyms that share a URI prefix synonym",
                detail="conditional-cover",
            )


def _caller_flag_expr(cx: Cx, fn, pname: str):
    """The per-record expression a caller computes the flags from: ``[E(r) for r in records]`` passed for ``pname``
    together with the same ``records``: (loop variable, E).  None if there is no unique such caller."""
    names = [q.name for q in fn.params]
    if pname not in names:
        return None
    idx = names.index(pname)
    found = []
    for g in cx.model.functions.values():
        if g is fn:
            continue
        import ast as _ast

        if not any(isinstance(n, _ast.Name) and n.id == fn.name for n in _ast.walk(g.node)):
            continue
        gs = cx.summary(g)
        for c, ev, ctx in gs.calls(fn.name):
            arg = c[2][idx] if len(c[2]) > idx else dict(c[3]).get(pname)
            recs_arg = c[2][0] if c[2] else None
            if op(arg) == "new" and len(arg) > 4:
                arg = arg[4]
            if op(arg) == "comp" and arg[1] in ("list", "gen") and len(arg[3]) == 1 and not arg[3][0][2] and arg[3][0][1] == recs_arg:
                found.append((arg[3][0][0], arg[2]))
            else:
                return None
    if len({show(e) for _, e in found}) == 1:
        return found[0]
    return None


def check_detector(cx: Cx, ob: Ob, cls: str, fn, side: set) -> None:
    other = (CURIE_SIDE | URI_SIDE) - side
    s = cx.summary(fn, ob.id)
    prov = Prov(s)
    terms = [t for t, _, _ in s.all_terms()]
    comps = pair_compare_cover(prov, terms)
    ob.site(f"{fn.where} {fn.qualname}", f"{cls} detector")
    # field-read cover: a detector that never reads a field cannot see clashes on it (robust necessary condition)
    read = {x[2] for t in terms for x in subterms(t) if op(x) == "attr" and x[2] in (CURIE_SIDE | URI_SIDE)}
    for f in sorted(side - read):
        ob.violate(fn.qualname, fn.where, f"the {cls} detector never reads `{f}`: clashes involving it go undetected", detail=f"unread:{f}")
    if side - read:
        return
    for x, y, how, c in comps:
        if how in ("_eq", "_in"):
            kw = dict(c[3])
            cs = kw.get("case_sensitive") or (c[2][2] if len(c[2]) > 2 else None)
            if not is_const(cs, True):
                ob.violate(
                    fn.qualname,
                    fn.where,
                    f"the {cls} detector compares through {how}(..., case_sensitive={show(cs) if cs else '?'}): two records whose names differ only by case are reported as a clash, so a collection in which no name is claimed twice is rejected",
                    witness="records with URI prefixes '.../obo/NCIT_' and '.../obo/ncit_' (as discover() legitimately learns them) cannot be put into one strict converter",
                    detail="case-insensitive",
                )
        if op(c) == "cmp" and any(op(z) == "call" and callee_name(z) in ("casefold", "lower", "upper", "strip") for z in subterms(c)):
            ob.violate(fn.qualname, fn.where, f"the {cls} detector compares transformed values (`{show(c)[:60]}`): distinct names are reported as a clash", detail="case-insensitive")
    mode, _, _, desc = _pair_mode(prov, s)
    if mode == "adjacent":
        ob.violate(fn.qualname, fn.where, f"the {cls} detector compares only adjacent records ({desc}); non-neighbouring clashes go undetected", detail="adjacent-pairs")
        return
    if mode == "bad":
        ob.violate(fn.qualname, fn.where, f"the {cls} detector enumerates {desc}", detail="pair-arity")
        return
    if mode == "all":
        _conditional_cover(cx, ob, cls, fn, s, prov, side)
        pairs = set()
        cross = []
        for x, y, how, c in comps:
            if x[0] == "?" or y[0] == "?":
                continue
            if x[0] == y[0]:
                continue  # same record term
            pairs.add((x[1], y[1]))
            if (x[1] in other) or (y[1] in other):
                cross.append((x[1], y[1], c))
        for a, b, c in cross:
            ob.violate(fn.qualname, fn.where, f"the {cls} detector compares `{a}` with `{b}` (other side of the record)", witness=show(c)[:100], detail=f"cross-side:{a}:{b}")
        need = {(f, g) for f in side for g in side}
        sym = pairs | {(b, a) for a, b in pairs}
        # with unordered pairs both orientations of (canonical, synonym) are needed explicitly
        missing = need - pairs
        if missing:
            ob.violate(
                fn.qualname,
                fn.where,
                f"the {cls} detector does not compare {sorted(missing)} between two records; such clashes are accepted",
                witness=f"comparisons found: {sorted(pairs)} over {desc}",
                detail="cover:" + ",".join(f"{a}~{b}" for a, b in sorted(missing)),
            )
        return
    # index form: a dict/set keyed by prefixes of all records, probed with prefixes of each record
    idx = _index_form(cx, s, prov, side)
    if idx is None:
        # nested i<j loops
        if _nested_loops(s, prov):
            pairs = {(x[1], y[1]) for x, y, _, _ in comps if x[0] != "?" and y[0] != "?" and x[0] != y[0]}
            missing = {(f, g) for f in side for g in side} - pairs
            if missing:
                ob.violate(fn.qualname, fn.where, f"the {cls} detector does not compare {sorted(missing)}", detail="cover:" + ",".join(f"{a}~{b}" for a, b in sorted(missing)))
            return
        ob.undecide(f"pair enumeration of the {cls} detector not recognised")
        return
    k_ins, k_look, desc = idx[:3]
    _self_clash(ob, cls, fn, s, idx[3] if len(idx) > 3 else None)
    if side - k_ins:
        ob.violate(fn.qualname, fn.where, f"the {cls} detector's index holds only {sorted(k_ins)}: a clash between two records on {sorted(side - k_ins)} is never seen", witness=desc, detail="index-cover:" + "+".join(sorted(side - k_ins)))
    if side - k_look:
        ob.violate(fn.qualname, fn.where, f"the {cls} detector probes its index only with {sorted(k_look)}", witness=desc, detail="probe-cover:" + "+".join(sorted(side - k_look)))


def _nested_loops(s, prov: Prov) -> bool:
    for bid, (it, path) in prov.binders.items():
        if op(it) == "slice" and op(it[2]) == "bin" and it[2][1] == "+" and is_const(it[2][3], 1):
            return True
    return False


def _index_form(cx: Cx, s, prov: Prov, side: set):
    """Recognise ``idx = {key(r): ... for r in records}`` + membership probes; returns (inserted cover, probed cover, text)."""
    containers = []
    for t, _, _ in s.all_terms():
        for c in subterms(t):
            if op(c) == "new" and c[1] in ("dict", "set", "defaultdict") and len(c) > 4:
                init = c[4]
                if op(init) == "comp":
                    containers.append((c, init))
                else:
                    containers.append((c, None))
            elif op(c) == "comp" and c[1] in ("dict", "set"):
                containers.append((c, c))
    # comprehension assigned to a local is not a 'new': look for comps bound to locals
    for ev, _ in s.walk():
        if ev.kind == "bind" and op(ev.b) == "comp" and ev.b[1] in ("dict", "set"):
            containers.append((ev.b, ev.b))
    best = None
    for cont, comp in containers:
        k_ins = set()
        if comp is not None:
            prov.scan(comp)
            key = comp[2][1] if comp[1] == "dict" else comp[2]
            k_ins |= {f for r, f in prov.fields(key) if r != "?"}
        else:
            for ev, _ in s.mutations_of(cont):
                if ev.kind == "store" and op(ev.a) == "item":
                    k_ins |= {f for r, f in prov.fields(ev.a[2]) if r != "?"}
                elif ev.kind == "expr" and callee_name(ev.a) in ("add", "setdefault") and ev.a[2]:
                    k_ins |= {f for r, f in prov.fields(ev.a[2][0]) if r != "?"}
            # `first = idx.setdefault(key, owner)`: the insertion is inside a binding
            for t, _, _ in s.all_terms():
                for c in subterms(t):
                    if op(c) == "call" and op(c[1]) == "attr" and c[1][1] == cont and c[1][2] == "setdefault" and len(c[2]) == 2:
                        k_ins |= {f for r, f in prov.fields(c[2][0]) if r != "?"}
        k_look = set()
        for t, _, _ in s.all_terms():
            for c in subterms(t):
                if op(c) == "cmp" and c[1] in ("in", "not in") and c[3] == cont:
                    k_look |= {f for r, f in prov.fields(c[2]) if r != "?"}
                if op(c) == "item" and c[1] == cont:
                    k_look |= {f for r, f in prov.fields(c[2]) if r != "?"}
                if op(c) == "call" and op(c[1]) == "attr" and c[1][1] == cont and c[1][2] in ("get", "setdefault") and c[2]:
                    k_look |= {f for r, f in prov.fields(c[2][0]) if r != "?"}
        if k_ins & side or k_look & side:
            best = (k_ins, k_look, f"index {show(cont)[:90]}", cont)
    return best


def _self_clash(ob: Ob, cls: str, fn, s, cont) -> None:
    """An index filled WHILE a record's own names are looked up in it: a name the record lists twice (a repeated
    synonym is legal) finds the entry the record has just made and is reported as a clash of the record with
    itself - unless the report compares the owner found with the record at hand, or the names are de-duplicated."""
    if cont is None:
        return
    fills, reports = [], []
    for ev, ctx in s.walk():
        ts = [x for t in (ev.a, ev.b) if isinstance(t, tuple) for x in subterms(t)]
        if ev.kind == "store" and op(ev.a) == "item" and ev.a[1] == cont:
            fills.append((ev, ctx))
        elif any(op(x) == "call" and op(x[1]) == "attr" and x[1][1] == cont and x[1][2] in ("setdefault", "add") for x in ts):
            fills.append((ev, ctx))
        if any(op(x) == "call" and op(x[1]) == "cls" and x[1][1].endswith(".DuplicateSummary") for x in ts):
            reports.append((ev, ctx))
    for rev, rctx in reports:
        if not rctx.loops:
            continue
        inner = rctx.loops[-1]
        if not any(fctx.loops and fctx.loops[-1].a == inner.a and fctx.loops[-1].line == inner.line for _, fctx in fills):
            continue  # the index is complete (or holds only earlier records) when it is probed
        it = inner.b
        if op(it) == "call" and it[1] in (("builtin", "set"), ("builtin", "frozenset")) or (op(it) == "call" and callee_name(it) == "fromkeys") or (op(it) == "comp" and it[1] == "set"):
            continue
        owner_checked = False
        for g in rctx.guards:
            if g.kind != "guard":
                continue
            for c in subterms(g.a):
                if op(c) == "cmp" and c[1] in ("!=", "is not", "==", "is"):
                    sides = (c[2], c[3])
                    from_index = [x for x in sides if any(y == cont for y in subterms(x))]
                    current = [x for x in sides if x not in from_index and not is_const(x)]
                    if from_index and current:
                        owner_checked = True
        if owner_checked:
            ob.site(f"{where(fn, rev.line)} {fn.qualname}", "single-pass index: the owner found is compared with the record at hand")
            continue
        ob.violate(
            fn.qualname,
            where(fn, rev.line),
            f"the {cls} detector fills its index while it looks a record's own names up in it and reports every hit: a record that lists one name twice (a repeated synonym is legal) is reported as clashing with itself, so a collection in which no name is claimed by two records is rejected",
            witness="Converter([Record(prefix='a', uri_prefix='u', prefix_synonyms=['x', 'x'])]) raises DuplicatePrefixes",
            detail="self-clash",
        )


@obligation("C04-D2", "MATRIX: both duplicate detectors enumerate all unordered pairs of records and compare the full {canonical, synonyms} x {canonical, synonyms} cover of their own side", floor=2)
def d2(cx: Cx, ob: Ob) -> None:
    init, s, dets = find_detectors(cx, ob)
    for cls, (kind, side) in DETECTORS.items():
        if cls not in dets or dets[cls][0] is None:
            ob.undecide(f"detector function for {cls} not found")
            continue
        check_detector(cx, ob, cls, dets[cls][0], side)


def _fold_term(cx: Cx, t):
    """Fold literal structure: a module constant that is a literal table, a subscript of one by a literal key, a
    comparison of two literals."""
    from ..terms import rewrite

    class _No:
        pass

    def val(x):
        if op(x) == "const":
            return x[1]
        if op(x) in ("tuple", "list"):
            vs = [val(y) for y in x[1]]
            return _No if any(v is _No for v in vs) else tuple(vs)
        if op(x) == "gconst":
            mod = cx.model.modules.get(x[1])
            try:
                v_ = cx.model.const_value(mod, x[2]) if mod is not None else _No
            except Exception:  # noqa: BLE001
                return _No
            return v_ if isinstance(v_, (dict, tuple, list, str, int, bool, type(None))) else _No
        return _No

    def lift(v_):
        if isinstance(v_, (str, int, bool, type(None))):
            return ("const", v_)
        if isinstance(v_, (tuple, list)):
            return ("tuple", tuple(lift(y) for y in v_))
        return None

    def f(x):
        if op(x) == "item":
            base, k = val(x[1]), val(x[2])
            if base is not _No and k is not _No:
                try:
                    r = lift(base[k])
                except Exception:  # noqa: BLE001
                    r = None
                if r is not None:
                    return r
        if op(x) == "cmp" and x[1] in ("==", "!=") and op(x[2]) == "const" and op(x[3]) == "const":
            return ("const", (x[2][1] == x[3][1]) == (x[1] == "=="))
        return x

    return rewrite(t, f)


def _for_field(cx: Cx, m, outcomes, info, field: str):
    """The (term, ctx) outcomes of a validator shared by several fields, as it runs for ``field``: paths whose guards
    contradict ``info.field_name == field`` are dropped, the others have the name folded in."""
    from types import SimpleNamespace

    mp = {("attr", info, "field_name"): ("const", field)}
    out = []
    for t, ctx in outcomes:
        feasible, gs = True, []
        for g in ctx.guards:
            if g.kind != "guard":
                gs.append(g)
                continue
            a = _fold_term(cx, substitute(g.a, mp))
            if op(a) == "const" and isinstance(a[1], bool):
                if a[1] != g.b:
                    feasible = False
                    break
                continue
            gs.append(SimpleNamespace(kind="guard", a=a, b=g.b, line=g.line))
        if feasible:
            out.append((_fold_term(cx, substitute(t, mp)) if isinstance(t, tuple) else t, SimpleNamespace(guards=tuple(gs), path=ctx.path, loops=ctx.loops)))
    return out


@obligation("C04-D3", "Record validators: the validator of each synonym list reads the matching canonical field and raises on membership; every Record is built through the validating constructor", floor=3)
def d3(cx: Cx, ob: Ob) -> None:
    rec = cx.model.cls(f"{API}.Record", ob.id)
    want = {"prefix_synonyms": "prefix", "uri_prefix_synonyms": "uri_prefix"}
    seen = {}
    extra_validators: list = []
    for m in rec.methods.values():
        for d in m.node.decorator_list:
            if isinstance(d, ast.Call) and ast.unparse(d.func).endswith("field_validator"):
                fields = [a.value for a in d.args if isinstance(a, ast.Constant)]
                mode = next((k.value.value for k in d.keywords if k.arg == "mode" and isinstance(k.value, ast.Constant)), "after")
                for f in fields:
                    # a field may have several validators: the rejecting one is the one that can raise; the others
                    # are transformations of the list, judged for what they keep
                    m_s = cx.summary(m, ob.id)
                    if m_s.raises() or f not in seen:
                        if f in seen and not cx.summary(seen[f][0], ob.id).raises():
                            extra_validators.append((f, seen[f][0]))
                        seen[f] = (m, mode)
                    else:
                        extra_validators.append((f, m))
    for f, m in extra_validators:
        s = cx.summary(m, ob.id)
        v = ("param", m.params[1].name) if len(m.params) > 1 else None
        for t, ctx in s.returns():
            ob.site(f"{m.where} {m.qualname}", f"transforming validator of {f}: {show(t)[:50]}")
            keep_first = ("call", ("builtin", "list"), (("call", ("attr", ("builtin", "dict"), "fromkeys"), (v,), ()),), ())
            if t == v or t == keep_first or t == ("call", ("builtin", "list"), (v,), ()):
                continue
            if op(t) == "comp" and len(t[3]) == 1 and t[3][0][1] == v and t[2] == t[3][0][0] and t[3][0][2]:
                c_ = t[3][0][2][0]
                if op(c_) == "call" and c_[1] == ("builtin", "isinstance"):
                    continue
                ob.violate(
                    m.qualname,
                    m.where,
                    f"the validator {m.name} of `{f}` keeps only the entries for which `{show(c_)[:50]}`: names the input lists are dropped from every record that is built (every loader goes through Record), so they neither expand nor compress",
                    witness="a synonym list that repeats an entry (or holds the empty prefix): the entry is gone from the record",
                    detail=f"validator-drops:{f}",
                )
                continue
            ob.undecide(f"the validator {m.name} of `{f}` returns `{show(t)[:50]}`: what it keeps of the list is not recognised")
    for f, canon in want.items():
        if f not in seen:
            ob.violate(rec.qualname, f"src/curies/{rec.module.relpath}:{rec.node.lineno}", f"Record has no field validator for `{f}`: a record may list its own `{canon}` among its synonyms", detail=f"no-validator:{f}")
            continue
        m, mode = seen[f]
        s = cx.summary(m, ob.id)
        ob.site(f"{m.where} {m.qualname}", f"validator of {f}")
        v = ("param", m.params[1].name) if len(m.params) > 1 else None
        raises = s.raises()
        if len(m.params) > 2:
            # read as pydantic runs it for THIS field (one validator may be decorated for several):
            # info.field_name is the field's name; tables keyed by it are looked up
            raises = _for_field(cx, m, raises, ("param", m.params[2].name), f)
        if not raises:
            ob.violate(m.qualname, m.where, f"validator of `{f}` never raises", detail=f"never-raises:{f}")
            continue
        good = False
        mentions = False
        for t, ctx in raises:
            for g in ctx.guards:
                if g.kind != "guard" or g.b is not True:
                    continue
                c = g.a
                needle = None
                if op(c) == "cmp" and c[1] == "in" and c[3] == v:
                    needle = c[2]
                elif op(c) == "call" and callee_name(c) == "any" and c[2] and op(c[2][0]) == "comp" and len(c[2][0][3]) == 1 and c[2][0][3][0][1] == v:
                    comp = c[2][0]
                    tgt, elt = comp[3][0][0], comp[2]
                    if op(elt) == "cmp" and elt[1] == "==" and tgt in (elt[2], elt[3]):
                        needle = elt[3] if elt[2] == tgt else elt[2]
                if any(x == v for x in subterms(c)):
                    mentions = True
                if needle is not None:
                    # what is tested for membership: the canonical value read from the validation info
                    keys = [x[1] for x in subterms(needle) if is_const(x) and isinstance(x[1], str)]
                    if canon in keys:
                        good = True
                    elif keys:
                        ob.violate(m.qualname, where(m, g.line), f"validator of `{f}` checks membership of `{keys[0]}` instead of `{canon}`", detail=f"wrong-canonical:{f}")
                        good = True
        if not good and mentions:
            ob.undecide(f"validator of `{f}`: membership test not recognised")
        elif not good:
            ob.violate(m.qualname, m.where, f"validator of `{f}` does not raise when `{canon}` is a member of the list", detail=f"no-membership-test:{f}")
        for t, ctx in s.returns():
            if t != v and not is_const(t, None):
                pass
    # every Record construction validates
    n = 0
    for fn in cx.model.functions.values():
        fs = cx.summary(fn, ob.id)
        for c, ev, _ in fs.calls():
            f = c[1]
            if op(f) == "attr" and op(f[1]) == "cls" and f[1][1].endswith(".Record") and f[2] in ("model_construct", "construct"):
                if construct_from_full_dump(c):
                    ob.site(f"{where(fn, ev.line)} {fn.qualname}", "model_construct from the full dump of a validated record: a copy")
                    continue
                if construct_of_plain_strings(c):
                    ob.site(f"{where(fn, ev.line)} {fn.qualname}", "model_construct of the two canonical fields as plain strings: no synonym list the skipped validators could object to")
                    continue
                ob.violate(fn.qualname, where(fn, ev.line), f"{fn.name} builds a Record with `{f[2]}`, which skips the validators: a record may then list its own canonical prefix / URI prefix among its synonyms", detail="model_construct")
            if op(f) == "cls" and f[1].endswith(".Record"):
                n += 1
    cfg = rec.assigns.get("model_config")
    if cfg is not None:
        txt = ast.unparse(cfg)
        if "validate_assignment" in txt or "revalidate" in txt:
            pass
    ob.site(f"src/curies/{rec.module.relpath}:{rec.node.lineno} {rec.qualname}", f"{n} validating Record(...) constructions in the package")


@obligation("C04-D4", "who-may-construct: no Converter(...)/cls(...) call in the package passes strict=False; loaders forward **kwargs", floor=10)
def d4(cx: Cx, ob: Ob) -> None:
    for fn in cx.model.functions.values():
        fs = cx.summary(fn, ob.id)
        rets = [t_ for t_, _c in fs.returns()]
        for c, ev, ectx in fs.calls():
            f = c[1]
            is_ctor = (op(f) == "cls" and f[1] == CONV) or (op(f) == "param" and f[1] == "cls" and fn.cls is not None and fn.cls.qualname == CONV and fn.is_classmethod)
            if not is_ctor:
                continue
            ob.site(f"{where(fn, ev.line)} {fn.qualname}", "Converter construction")
            # the duplicate errors of the strict constructor reach the caller AS they are: a `try` around the
            # construction whose handler catches them (ValueError and wider) and raises something else hides 'which
            # records clash' behind another error
            for tr in ast.walk(fn.node):
                if ev.kind == "expr" and ev.a == c:
                    break  # a construction whose result is thrown away is a PROBE ("would these records be accepted?")
                if not isinstance(tr, ast.Try) or not any(getattr(n_, "lineno", None) == ev.line for b_ in tr.body for n_ in ast.walk(b_)):
                    continue
                for h in tr.handlers:
                    names_ = [ast.unparse(x_).rsplit(".", 1)[-1] for x_ in (h.type.elts if isinstance(h.type, ast.Tuple) else [h.type])] if h.type is not None else ["BaseException"]
                    wide = [n_ for n_ in names_ if n_ in ("ValueError", "Exception", "BaseException", "DuplicateValueError")]
                    if not wide:
                        continue
                    reraises = any(isinstance(x_, ast.Raise) and x_.exc is None for b_ in h.body for x_ in ast.walk(b_))
                    other = [x_ for b_ in h.body for x_ in ast.walk(b_) if isinstance(x_, ast.Raise) and x_.exc is not None]
                    swallowed = not any(isinstance(x_, ast.Raise) for b_ in h.body for x_ in ast.walk(b_))
                    if (other or swallowed) and not reraises:
                        ob.violate(
                            fn.qualname,
                            f"src/curies/{fn.module.relpath}:{h.lineno}",
                            f"{fn.name} builds its converter inside a `try` whose handler catches {wide[0]} - and with it DuplicateURIPrefixes / DuplicatePrefixes of the strict constructor - and {'raises another error in their place' if other else 'swallows them'}: a collection in which a name is claimed twice is no longer rejected with the error that lists the clashing records",
                            witness="a clash in the data given to this loader: plain ValueError without .duplicates (or no error at all)",
                            detail="duplicate-error-relabelled",
                        )
            kw = dict(c[3])
            if "strict" in kw and not (op(kw["strict"]) == "param"):
                if not is_const(kw["strict"], True):
                    # (1) a lenient WORKING COPY that never leaves the function: what is handed out is built strictly
                    escapes = any(r_ == c or (op(r_) == "ifexp" and c in (r_[2], r_[3])) for r_ in rets) or any(e2.kind == "store" and e2.b == c and op(e2.a) == "attr" for e2, _c2 in fs.walk())
                    strict_results = [r_ for r_ in rets if op(r_) == "call" and ((op(r_[1]) == "cls" and r_[1][1] == CONV)) and not any(k_ == "strict" for k_, _v in r_[3])]
                    if not escapes and strict_results and len(strict_results) == len([r_ for r_ in rets if not is_const(r_, None)]):
                        ob.site(f"{where(fn, ev.line)} {fn.qualname}", "lenient working copy; every result is built by the strict constructor")
                        continue
                    # (2) the fallback for an input that was itself built leniently: reached only after the strict
                    # constructor has refused BOTH the result and the input's own records
                    dup = [g for g in ectx.guards if g.kind == "except" and any(str(n_).rsplit(".", 1)[-1] in ("DuplicateValueError", "DuplicateURIPrefixes", "DuplicatePrefixes", "ValueError") for n_ in (g.a if isinstance(g.a, (tuple, list)) else (g.a,)))]
                    probes_input = any(
                        isinstance(t_, tuple) and any(op(x_) == "call" and op(x_[1]) == "cls" and x_[1][1] == CONV and x_[2][:1] and op(x_[2][0]) == "attr" and op(x_[2][0][1]) == "param" and x_[2][0][2] == "records" and not x_[3] for x_ in subterms(t_))
                        for e2, c2 in fs.walk() if any(g_.kind == "except" for g_ in c2.guards) for t_ in (e2.a, e2.b)
                    )
                    if len(dup) >= 2 and probes_input:
                        ob.site(f"{where(fn, ev.line)} {fn.qualname}", "lenient result only after the strict constructor refused the input converter's own records as well")
                        continue
                    ob.violate(fn.qualname, where(fn, ev.line), f"{fn.name} constructs a Converter with strict={show(kw['strict'])}: duplicate prefixes are accepted silently", detail="strict-off")
            if len(c[2]) > 2:
                ob.violate(fn.qualname, where(fn, ev.line), "positional arguments beyond records passed to Converter(...)", detail="positional")


def _table_view(ob: Ob, fn, me, name: str, t, k: str, v: str) -> bool:
    """``{K: V for K, V in self.T.items() if <filters>}`` read as a view of a lookup table.  A table maps every name
    of one side of a record r (canonical field + synonym list) to a canonical field of r, names are owned by one
    record (C04) and a canonical value is not among the synonyms of its own side (Record validators), so
    ``self.T2.get(<canonical field f of r>)`` is r's value field of T2 and ``K == <field f of r>`` keeps exactly the
    name K that IS r.f.  Returns True when the comprehension was such a view and has been judged."""
    from ..rules import TABLES

    tgt, it, ifs = t[3][0]
    if not (op(it) == "call" and callee_name(it) == "items" and not it[2] and op(it[1][1]) == "attr" and it[1][1][1] == me and it[1][1][2] in TABLES and op(tgt) == "tuple" and len(tgt[1]) == 2):
        return False
    T = it[1][1][2]
    K, V = tgt[1]
    fk = set(TABLES[T][0])
    vf = TABLES[T][1]

    def sym(x):
        if x == K:
            return ("K",)
        if x == V:
            return ("F", vf)
        key = None
        if op(x) == "call" and callee_name(x) == "get" and len(x[2]) == 1 and op(x[1][1]) == "attr" and x[1][1][1] == me and x[1][1][2] in TABLES:
            T2, key = x[1][1][2], x[2][0]
        elif op(x) == "item" and op(x[1]) == "attr" and x[1][1] == me and x[1][2] in TABLES:
            T2, key = x[1][2], x[2]
        if key is not None:
            sk = sym(key)
            if sk is not None and ((sk[0] == "F" and sk[1] in TABLES[T2][0]) or (sk[0] == "K" and fk and fk <= set(TABLES[T2][0]))):
                return ("F", TABLES[T2][1])
        return None

    for c in ifs:
        if not (op(c) == "cmp" and c[1] in ("==", "!=")):
            ob.undecide(f"{name}: filter `{show(c)[:50]}` over {T} is not a comparison of names")
            return True
        a, b = sym(c[2]), sym(c[3])
        if a is None or b is None:
            ob.undecide(f"{name}: filter `{show(c)[:50]}` over {T} not understood")
            return True
        if a[0] == "K" and b[0] == "F":
            a, b = b, a
        if a[0] == "F" and b[0] == "K":
            side = next((sd for sd in (TABLES["prefix_map"][0], TABLES["reverse_prefix_map"][0]) if a[1] in sd), None)
            if side is None or not fk <= set(side):
                ob.undecide(f"{name}: filter `{show(c)[:50]}` compares names of different kinds")
                return True
            fk = (fk & {a[1]}) if c[1] == "==" else (fk - {a[1]})
        elif a[0] == "F" and b[0] == "F":
            if a[1] == b[1]:
                if c[1] == "!=":
                    fk = set()
                # `==` of a field with itself: always true, the filter selects nothing
                ob.site(f"{fn.where} {fn.qualname}", f"filter `{show(c)[:50]}` compares r.{a[1]} with itself")
            else:
                ob.undecide(f"{name}: filter `{show(c)[:50]}` compares two different fields")
                return True
        else:
            ob.undecide(f"{name}: filter `{show(c)[:50]}` not understood")
            return True
    kk, vv = t[2][1], t[2][2]
    sk, sv = sym(kk), sym(vv)
    if sk is None or sv is None:
        ob.undecide(f"{name}: entries `{show(kk)[:30]}: {show(vv)[:30]}` of the view over {T} not understood")
        return True
    keys = fk if sk[0] == "K" else {sk[1]}
    ob.site(f"{fn.where} {fn.qualname}", f"view of {T}: keys {sorted(keys)} -> {sv[1] if sv[0] == 'F' else 'K'}")
    if sv != ("F", v):
        ob.violate(fn.qualname, fn.where, f"{name} is a view of {T} whose values are {sv}, expected the record's {v}", detail="roles")
    if keys != {k}:
        extra = sorted(keys - {k})
        ob.violate(
            fn.qualname,
            fn.where,
            f"{name} is a view of {T} that keeps the entries keyed by {sorted(keys) or 'nothing'}; expected exactly the canonical `{k}` of every record" + (f" - the filter does not remove {extra} (it compares a value with itself or with what it always equals)" if extra else ""),
            witness="a record with URI-prefix synonyms: they show up as keys of reverse_bimap, which is then not the inverse of bimap",
            detail="view-keys:" + "+".join(sorted(keys)),
        )
    return True


@obligation("C04-D5", "bimap / reverse_bimap are built from (r.prefix, r.uri_prefix) of the records, in opposite orientation", floor=2)
def d5(cx: Cx, ob: Ob) -> None:
    # properties were inlined into the property table; read the methods directly
    for name, (k, v) in (("bimap", ("prefix", "uri_prefix")), ("reverse_bimap", ("uri_prefix", "prefix"))):
        fn = cx.fn(f"{CONV}.{name}", ob.id)
        s = cx.summary(fn, ob.id)
        me = ("param", fn.self_name)
        for t, ctx in s.returns():
            ob.site(fn, f"return {show(t)[:70]}")
            if op(t) == "call" and op(t[1]) == "func" and t[2][:1] == (("attr", me, "records"),) and t[1][1] in cx.model.functions:
                # built by one of the table builders the constructor uses, as this call runs it
                from ..rules import _for_this_call, dict_builder_entries

                bfn = cx.model.functions[t[1][1]]
                ents = _for_this_call(dict_builder_entries(cx, bfn, name, ob.id), bfn, t)
                if ents and not any(e.key_unknown for e in ents):
                    keys = set().union(*[set(e.key_fields) for e in ents])
                    vals = {e.value_field for e in ents}
                    ob.site(fn, f"{bfn.name}(self.records, ...): keys {sorted(keys)} -> {sorted(map(str, vals))}")
                    if keys != {k} or vals != {v}:
                        ob.violate(fn.qualname, fn.where, f"{name} is built by {bfn.name} with keys {sorted(keys)} and values {sorted(map(str, vals))}; expected exactly the canonical `{k}` -> `{v}` of every record", detail="view-keys:" + "+".join(sorted(keys)))
                    elif any(e.conditions for e in ents):
                        ob.violate(fn.qualname, fn.where, f"{name}: {bfn.name} enters the canonical pair only conditionally", detail="filter")
                    continue
            if op(t) != "comp" or t[1] != "dict" or len(t[3]) != 1:
                ob.undecide(f"{name} is not a single dict comprehension")
                continue
            tgt, it, ifs = t[3][0]
            if _table_view(ob, fn, me, name, t, k, v):
                continue
            if it != ("attr", me, "records"):
                ob.violate(fn.qualname, fn.where, f"{name} iterates `{show(it)[:40]}`, not self.records", detail="source")
            if ifs:
                ob.violate(fn.qualname, fn.where, f"{name} filters records", detail="filter")
            kk, vv = t[2][1], t[2][2]
            if kk != ("attr", tgt, k) or vv != ("attr", tgt, v):
                ob.violate(fn.qualname, fn.where, f"{name} maps `{show(kk)}` -> `{show(vv)}`; expected {k} -> {v}", detail="roles")



@obligation("C04-X3", "no memoised derived values (cached_property / lru_cache) on Record, Reference or Converter objects, which are changed in place or copied with updates", floor=3)
def x3(cx: Cx, ob: Ob) -> None:
    from ..rules import cached_derivations

    cached_derivations(cx, ob)


def summary_roles(cx: Cx, ob: Ob) -> None:
    """Every ``DuplicateSummary(...)`` the detectors build puts the two records into the fields declared ``Record`` and
    the clashing string into the field declared ``str``: with positional arguments the roles are fixed by the ORDER
    of the fields in the class, which a sibling call site may not have followed when that order was changed."""
    ci = cx.model.classes.get(f"{API}.DuplicateSummary")
    if ci is None:
        ob.undecide("DuplicateSummary not found")
        return
    order = list(ci.fields)
    kinds = {n: ("record" if a is not None and "Record" in ast.unparse(a) else "str" if a is not None and ast.unparse(a) == "str" else "?") for n, (a, _) in ci.fields.items()}
    for det in ("_get_duplicate_uri_prefixes", "_get_duplicate_prefixes"):
        fn = cx.model.functions.get(f"{API}.{det}")
        if fn is None:
            continue
        s = cx.summary(fn, ob.id)
        for t, _, _ in s.all_terms():
            for x in subterms(t):
                if op(x) != "comp" or not (op(x[2]) == "call" and op(x[2][1]) == "cls" and x[2][1][1].endswith(".DuplicateSummary")):
                    continue
                call = x[2]
                rec_vars, name_vars = set(), set()
                for tgt, it, _ in x[3]:
                    vs = tgt[1] if op(tgt) == "tuple" else (tgt,)
                    # generators that range over the records themselves vs. over names taken from them
                    over_records = any(y == ("param", fn.params[0].name) for y in subterms(it)) and not any(op(y) == "attr" and y[1] in rec_vars for y in subterms(it))
                    (rec_vars if over_records else name_vars).update(vs)
                bound = dict(zip(order, call[2]))
                bound.update({k: v for k, v in call[3] if k})
                ob.site(f"{fn.where} {fn.qualname}", f"DuplicateSummary({', '.join(f'{k}={show(v)[:12]}' for k, v in bound.items())})")
                for k, v in bound.items():
                    got = "record" if v in rec_vars else "str" if v in name_vars else "?"
                    if kinds.get(k, "?") != "?" and got != "?" and kinds[k] != got:
                        ob.violate(
                            fn.qualname,
                            fn.where,
                            f"{det} fills DuplicateSummary.{k} (declared {kinds[k]}) with `{show(v)[:30]}`, a {got}: the positional arguments do not follow the order of the fields {order}, so the error lists a string where a clashing record is expected and a record where the clashing prefix is",
                            witness="e.duplicates[0].prefix is a Record and .record_2 the clashing string",
                            detail=f"summary-roles:{k}",
                        )


@obligation("C04-D6", "'listing the clashing records': DuplicateValueError keeps the list of clashes it is given unchanged (no de-duplication or truncation between the detector and the exception), and __init__ raises exactly what the detector returned", floor=3)
def d6(cx: Cx, ob: Ob) -> None:
    from ..terms import subterms

    summary_roles(cx, ob)
    cls = cx.model.cls(f"{API}.DuplicateValueError", ob.id)
    init = cls.methods.get("__init__")
    if init is None:
        ob.undecide("DuplicateValueError has no __init__")
        return
    s = cx.summary(init, ob.id)
    me = ("param", init.self_name)
    arg = init.params[1].name if len(init.params) > 1 else None
    stores = [(ev, ctx) for ev, ctx in s.walk() if ev.kind == "store" and ev.a == ("attr", me, "duplicates")]
    ob.site(f"{init.where} {init.qualname}", "stores duplicates")
    if not stores:
        ob.violate(init.qualname, init.where, "DuplicateValueError does not keep the list of clashing records", detail="not-stored")
    for ev, ctx in stores:
        v_ = ev.b
        if op(v_) == "call" and v_[1] == ("builtin", "sorted") and v_[2] == (("param", arg),):
            # a sorted copy keeps every summary; without a key the summaries (NamedTuples holding Records) are
            # compared element by element and, on a tie of the clashing prefix, Record < Record raises TypeError
            if dict(v_[3]).get("key") is None:
                ob.violate(init.qualname, where(init, ev.line), "DuplicateValueError sorts the summaries it is given without a key: two summaries for the same clashing prefix are compared through their Record objects, which are not orderable - TypeError instead of the duplicate error", witness="three records sharing one URI prefix", detail="unorderable")
            continue
        if op(v_) == "call" and v_[1] in (("builtin", "list"), ("builtin", "tuple")) and v_[2] == (("param", arg),):
            continue
        if ev.b != ("param", arg):
            ob.violate(init.qualname, where(init, ev.line), f"DuplicateValueError stores `{show(ev.b)[:80]}` instead of the clashes it was given: some clashing records are not listed", witness="three records sharing one URI prefix: only the last pair survives, the first record is never named", detail="transformed")
        if [g for g in ctx.guards if g.kind == "guard"]:
            ob.violate(init.qualname, where(init, ev.line), "DuplicateValueError stores the clashes only conditionally", detail="conditional")
    # the constructor raises the detector result itself
    ctor = cx.fn(f"{CONV}.__init__", ob.id)
    cs = cx.summary(ctor, ob.id)
    n = 0
    for o, ctx in cs.outcomes():
        if o is None or o[0] != "raise":
            continue
        t = o[1]
        if op(t) != "call" or op(t[1]) != "cls" or t[1][1].rsplit(".", 1)[-1] not in ("DuplicateURIPrefixes", "DuplicatePrefixes"):
            continue
        n += 1
        ob.site(f"{where(ctor, o[2])} {ctor.qualname}", f"raise {show(t)[:60]}")
        a = t[2][0] if t[2] else None
        want = "_get_duplicate_uri_prefixes" if t[1][1].endswith("DuplicateURIPrefixes") else "_get_duplicate_prefixes"
        inner = _order_views(a[2][0] if op(a) == "call" and a[2] else None)
        cme = ("param", ctor.self_name)
        if inner == ("attr", cme, "records"):
            # the list the constructor has already stored: what was stored is what is checked
            kept = {_order_views(ev.b) for ev, _ in cs.distinct_events("store") if ev.a == ("attr", cme, "records")}
            if kept == {("param", "records")}:
                inner = ("param", "records")
        if not (op(a) == "call" and callee_name(a) == want and inner == ("param", "records")):
            ob.violate(ctor.qualname, where(ctor, o[2]), f"{t[1][1].rsplit('.', 1)[-1]} is raised with `{show(a)[:70]}`, not with the full result of {want}(records)", detail=f"raise-arg:{want}")
    if n < 2:
        ob.undecide(f"only {n} duplicate-error raise(s) found in Converter.__init__")


@obligation("C04-X8", "the Record model stores prefixes and URI prefixes verbatim: no pydantic string transformation (strip / case folding / length limits) in its model_config or field declarations", floor=1)
def x8(cx: Cx, ob: Ob) -> None:
    from ..rules import record_verbatim

    record_verbatim(cx, ob)


@obligation("C04-X10", "Converter.__init__ reads its (Iterable, possibly one-shot) `records` argument only through one materialising call (sorted/list) and keeps that fresh list - never the caller's list object, never sorted in place", floor=2)
def x10(cx: Cx, ob: Ob) -> None:
    from ..rules import constructor_owns_records

    constructor_owns_records(cx, ob)


@obligation("C04-X12", "def-use lints over the files this property is anchored in (api.py): no one-shot iterator (generator expression, map, filter, zip, iter, reversed, enumerate, generator call) bound to a name is consumed twice or inside a loop that starts after its creation; no mutable default argument is mutated, stored or returned; no binary search over a sequence that is not kept sorted; no container resized inside the loop that iterates it; no Iterable parameter consumed twice before it is materialised; itertools.groupby only over input sorted by the grouping key", floor=1)
def x12(cx: Cx, ob: Ob) -> None:
    from ..rules import package_lints

    package_lints(cx, ob, {'api.py'})


@obligation("C04-X24", "the JSON-LD loader hands the strict constructor exactly the context's terms (shared with C13-D5): keyword entries such as @vocab / @base are not turned into records - a record invented from a keyword makes a clash-free context raise DuplicateURIPrefixes", floor=2)
def x24(cx: Cx, ob: Ob) -> None:
    from .c13 import check_jsonld_reader

    check_jsonld_reader(cx, ob)


@obligation("C04-X27", "every entry a loader is given reaches the strict constructor (shared with C13-D4: record builders of from_prefix_map / from_reverse_prefix_map / from_priority_prefix_map / from_extended_prefix_map read every key and value in its role, unfiltered): an entry dropped on the way cannot clash, so a collection the property says must be rejected loads silently", floor=6)
def x27(cx: Cx, ob: Ob) -> None:
    from .c13 import d4 as loaders_d4

    loaders_d4.fn(cx, ob) if hasattr(loaders_d4, "fn") else loaders_d4(cx, ob)


@obligation("C04-X1", "OWN (shared with C10): no function hands the Record objects of a strictly built converter (or shallow copies sharing their synonym lists) to another converter - a merge into the other converter would add names to the first one's records behind the back of its duplicate check, and two of its records end up claiming one name", floor=6)
def x1(cx: Cx, ob: Ob) -> None:
    from .c10 import check_no_aliasing

    check_no_aliasing(cx, ob)


@obligation("C04-X16", "strictness is kept by add_record (shared with C05-D3/D5/D6): _match_record finds EVERY existing record an incoming record overlaps with (full comparison cover, complete scan), add_record rejects a record that overlaps several and _merge adds names by exact membership - otherwise add_prefix / add_record / chain hand one name to two records of a strictly built converter", floor=8)
def x16(cx: Cx, ob: Ob) -> None:
    from .c05 import check_match_record, check_merge, d3 as add_record_guards

    check_match_record(cx, ob)
    check_merge(cx, ob)
    add_record_guards(cx, ob)


@obligation("C04-X28", "derivations keep every record valid (shared with C12-D1 / C11-D1): after remap_uri_prefixes / rewire / remap_curie_prefixes the new canonical value is not left among the record's own synonyms - a record that lists its canonical URI prefix as a synonym is one the Record validators (and a reload of the converter's records) reject, although the strict constructor's pairwise check does not look inside one record", floor=2)
def x28(cx: Cx, ob: Ob) -> None:
    from .c11 import run_setalg as c11_setalg
    from .c12 import d1 as c12_d1

    c12_d1.fn(cx, ob) if hasattr(c12_d1, "fn") else c12_d1(cx, ob)
    c11_setalg(cx, ob, want="loss")


@obligation("C04-X9", "no function on the loading path that reads a file or URL is memoised (shared with C13-X9): a collection that is loaded again from the same location after the file changed is judged on what the file holds NOW - a clash that was added is reported, one that was repaired is not", floor=5)
def x9(cx: Cx, ob: Ob) -> None:
    from .c13 import x9 as loaders_x9

    loaders_x9.fn(cx, ob) if hasattr(loaders_x9, "fn") else loaders_x9(cx, ob)


@obligation("C04-X29", "what the loaders are given reaches the strict constructor (shared with C13-D2): _prepare loads a Path / a local str / a remote str and hands every in-memory collection - any Mapping, any iterable of records - on unchanged; a collection refused or altered there is never checked for clashes, or fails with an error that is not the duplicate report", floor=4)
def x29(cx: Cx, ob: Ob) -> None:
    from .c13 import d2 as prepare_table

    prepare_table.fn(cx, ob) if hasattr(prepare_table, "fn") else prepare_table(cx, ob)
