"""C02 - CURIE expansion resolves any prefix or synonym to the canonical URI prefix."""

from __future__ import annotations

from ..report import Cx, Ob, describe, obligation
from ..rules import (
    API,
    CONV,
    CURIE_SIDE,
    Prov,
    cmp_cover,
    component,
    inline_methods,
    list_segments,
    reftuple_args,
    scan_none_discipline,
    self_call,
    where,
)
from ..summ import describe_path
from ..terms import NONE, callee_name, concat_parts, is_const, op, show, subterms
from .c01 import check_table_roles

describe(
    "C02",
    "other",
    "Structural necessary conditions of CURIE expansion: first-occurrence split in _split, the converter's own delimiter in "
    "parse_curie, None-discipline on every Optional[str] lookup whose range contains the empty prefix, index-table roles of "
    "prefix_map / synonym_to_prefix, untouched identifier flow into the concatenation, wrapper contracts of expand / expand_pair / "
    "expand_all, and the canonical-first-then-synonyms shape of expand_pair_all.",
    ["CPython ast", "str.partition / dict.get semantics"],
    ["prefixes do not contain the delimiter (as in the property's quantifier)"],
    ["the for-all prefixes x identifiers equality"],
)


def split_call_in(cx: Cx, fn, ob: Ob):
    s = cx.summary(fn, ob.id)
    hits = [(c, ev, ctx) for c, ev, ctx in s.calls() if op(c[1]) == "func" and c[1][1] == f"{API}._split"]
    if not hits:
        # a splitter bound once in __init__ (self.split = partial(_split, sep=delimiter)) and called here: the same
        # call with the separator FIXED to what the constructor was given - not the attribute format_curie reads
        init = cx.model.functions.get(f"{CONV}.__init__")
        if init is not None and fn.self_name:
            me_ = ("param", fn.self_name)
            bound = {}
            for ev0, _ in cx.summary(init, ob.id).walk():
                if ev0.kind == "store" and op(ev0.a) == "attr" and ev0.a[1] == ("param", init.self_name) and op(ev0.b) == "bound" and ev0.b[1] == ("func", f"{API}._split"):
                    bound[ev0.a[2]] = ev0.b
            for c, ev, ctx in s.calls():
                if op(c[1]) == "attr" and c[1][1] == me_ and c[1][2] in bound:
                    b = bound[c[1][2]]
                    kw = dict(b[3])
                    kw.update(dict(c[3]))
                    kw = {k: (("snapshot", v[1]) if op(v) == "param" else v) for k, v in kw.items()}
                    hits.append((("call", ("func", f"{API}._split"), tuple(b[2]) + tuple(c[2]), tuple(sorted(kw.items()))), ev, ctx))
    # ReferenceTuple.from_curie(curie, sep=...) is the same split (checked below / in C15-D3)
    rt = [(c, ev, ctx) for c, ev, ctx in s.calls() if c[1] == ("attr", ("cls", f"{API}.ReferenceTuple"), "from_curie")]
    if rt and not hits:
        f2 = cx.model.functions.get(f"{API}.ReferenceTuple.from_curie")
        if f2 is not None:
            s2 = cx.summary(f2, ob.id)
            via = [x for t, _ in s2.returns() for x in subterms(t) if op(x) == "call" and x[1] == ("func", f"{API}._split")]
            ob.site(f"{f2.where} {f2.qualname}", "split delegated to ReferenceTuple.from_curie")
            if not via:
                ob.violate(
                    f2.qualname,
                    f2.where,
                    f"{fn.name} splits through ReferenceTuple.from_curie, which does not go through _split: a string without the delimiter raises a builtin ValueError (unpacking) instead of NoCURIEDelimiterError, which is the only class {fn.name} handles",
                    witness="expand('GO') raises ValueError instead of returning None",
                    detail="split-not-via-_split",
                )
            elif not all(dict(x[3]).get("sep") == ("param", "sep") for x in via):
                ob.violate(f2.qualname, f2.where, "ReferenceTuple.from_curie does not pass its sep on to _split", detail="sep-not-forwarded")
        hits = rt
    return s, hits


@obligation("C02-D1", "_split cuts at the FIRST occurrence of the separator (str.partition or split(sep, 1)) and raises NoCURIEDelimiterError exactly when the separator is absent", floor=2)
def d1(cx: Cx, ob: Ob) -> None:
    check_split(cx, ob)


def check_split(cx: Cx, ob: Ob, callers: str = "converter") -> None:
    """``callers``: whose calls of ``_split`` the property speaks about - the converter's (parse_curie and what goes
    through it) or the reference classes' (from_curie, string validation).  An opt-in keyword that one side passes
    and the other leaves at its default is read as that side's calls bind it."""
    fn = cx.fn(f"{API}._split", ob.id)
    from ..rules import new_keyword_bindings

    in_conv = lambda g: g.cls is not None and g.cls.name == "Converter"  # noqa: E731
    binds = new_keyword_bindings(cx, fn, in_conv if callers == "converter" else (lambda g: not in_conv(g) and g.module is fn.module))
    for b in binds:
        _check_split(cx, ob, fn, cx.summary(fn, ob.id, bind=b) if b else cx.summary(fn, ob.id))


def _check_split(cx: Cx, ob: Ob, fn, s) -> None:
    curie, sep = ("param", fn.params[0].name), ("param", "sep")
    rets = [(t, ctx) for t, ctx in s.returns() if not is_const(t, None)]
    if not rets:
        ob.undecide("_split has no value return")
        return
    from ..rules import namedtuple_as_tuple

    for t, ctx in rets:
        line = ctx.path.out[2]
        t = namedtuple_as_tuple(cx, t)
        if op(t) != "tuple" or len(t[1]) != 2:
            ob.undecide(f"_split returns `{show(t)[:60]}`")
            continue
        a, b = t[1]
        ob.site(f"{where(fn, line)} {fn.qualname}", f"return ({show(a)[:40]}, {show(b)[:40]})")
        P = None
        for x in subterms(a):
            if op(x) == "call" and op(x[1]) == "attr" and x[1][1] == curie:
                P = x
        if P is None:
            # the string that is cut is a REWRITTEN form of the argument (stripped, case-changed, ..): what the
            # caller gets back is then not a cut of the CURIE it passed
            REWRITE = ("strip", "lstrip", "rstrip", "lower", "upper", "casefold", "replace", "removeprefix", "removesuffix", "translate", "title", "capitalize")
            rw = [x for x in subterms(a) if op(x) == "call" and op(x[1]) == "attr" and x[1][2] in ("partition", "split", "rpartition", "rsplit", "find", "index") and op(x[1][1]) == "call" and op(x[1][1][1]) == "attr" and x[1][1][1][1] == curie and x[1][1][1][2] in REWRITE]
            if rw:
                inner = rw[0][1][1]
                ob.violate(
                    fn.qualname,
                    where(fn, line),
                    f"_split cuts `{show(inner)[:40]}`, a rewritten form of its argument, not the CURIE it is given: characters of the identifier (and of the prefix) that the rewrite removes or changes are lost - the identifier is no longer the remainder after the first separator",
                    witness=f"an identifier that ends in a character `{inner[1][2]}` touches: the CURIE printed for a URI does not parse back to it",
                    detail="argument-rewritten",
                )
                continue
            ob.undecide("_split does not dissect its argument with a str method")
            continue
        m = callee_name(P)
        if m == "partition":
            if P[2] != (sep,):
                ob.violate(fn.qualname, where(fn, line), f"partition called with `{show(P[2][0]) if P[2] else ''}`, not the `sep` parameter", detail="sep-arg")
            head = ("item", P, ("const", 0))
            lens = lambda x: ("call", ("builtin", "len"), (x,), ())  # noqa: E731
            # the tail spelled as a slice: everything after the head and the separator (only where the separator was found)
            tail_slices = [("slice", curie, ("bin", "+", lens(head), lens(sep)), ("const", None), ("const", None)), ("slice", curie, ("bin", "+", lens(sep), lens(head)), ("const", None), ("const", None))]
            if a != head or not (b == ("item", P, ("const", 2)) or b in tail_slices):
                ob.violate(fn.qualname, where(fn, line), f"_split returns `{show(t)[:70]}`; expected (head, tail) = partition(sep)[0], [2] unchanged", detail="parts")
        elif m == "split":
            ms = P[2][1] if len(P[2]) > 1 else dict(P[3]).get("maxsplit")
            if P[2][:1] != (sep,):
                ob.violate(fn.qualname, where(fn, line), "split not called with the `sep` parameter", detail="sep-arg")
            if ms is None or not is_const(ms, 1):
                ob.violate(fn.qualname, where(fn, line), "str.split without maxsplit=1 cuts at every separator; identifiers containing the delimiter are mangled", witness="'a:b:c' must give ('a', 'b:c')", detail="split-all")
            elif a != ("item", P, ("const", 0)) or b != ("item", P, ("const", 1)):
                ob.violate(fn.qualname, where(fn, line), f"_split returns `{show(t)[:70]}`", detail="parts")
        elif m in ("find", "index"):
            # head = curie[:i], tail = curie[i + len(sep):] with i = curie.find(sep)
            lensep = ("call", ("builtin", "len"), (sep,), ())
            if P[2] != (sep,):
                ob.violate(fn.qualname, where(fn, line), f"{m} called with `{show(P[2][0]) if P[2] else ''}`, not the `sep` parameter", detail="sep-arg")
            okh = op(a) == "slice" and a[1] == curie and (is_const(a[2], None) or is_const(a[2], 0)) and a[3] == P and is_const(a[4], None)
            okt = op(b) == "slice" and b[1] == curie and is_const(b[3], None) and is_const(b[4], None) and b[2] in (("bin", "+", P, lensep), ("bin", "+", lensep, P))
            if op(b) == "slice" and b[1] == curie and op(b[2]) == "bin" and b[2][1] == "+" and P in (b[2][2], b[2][3]) and any(is_const(x) for x in (b[2][2], b[2][3])):
                k = [x for x in (b[2][2], b[2][3]) if is_const(x)][0][1]
                ob.violate(
                    fn.qualname,
                    where(fn, line),
                    f"the identifier starts {k} character(s) after the separator's position, not len(sep): wrong for every delimiter that is not exactly {k} character(s) long",
                    witness="_split('a::b', sep='::') gives ('a', ':b')",
                    detail="tail-offset",
                )
            elif not (okh and okt):
                ob.undecide(f"_split returns `{show(t)[:70]}` from str.{m}: slices not recognised")
        elif m in ("rpartition", "rsplit"):
            ob.violate(fn.qualname, where(fn, line), f"_split uses str.{m}, which cuts at the LAST separator", witness="'a:b:c' must give ('a', 'b:c'), not ('a:b', 'c')", detail="last-occurrence")
        elif m in ("strip", "lstrip", "rstrip", "lower", "upper", "casefold", "replace", "removeprefix", "removesuffix", "translate", "title", "capitalize"):
            ob.violate(
                fn.qualname,
                where(fn, line),
                f"_split cuts `{show(P)[:40]}`, a rewritten form of its argument, not the CURIE it is given: characters of the identifier (and of the prefix) that the rewrite removes or changes are lost - the identifier is no longer the remainder after the first separator",
                witness=f"an identifier that ends in a character str.{m} touches: the CURIE printed for a URI does not parse back to it",
                detail="argument-rewritten",
            )
        else:
            ob.undecide(f"_split dissects with str.{m}")
    # the raise
    raises = s.raises()
    ok = False
    for t, ctx in raises:
        name = callee_name(t) if op(t) == "call" else (t[1].rsplit(".", 1)[-1] if op(t) == "cls" else None)
        ob.site(f"{where(fn, ctx.path.out[2])} {fn.qualname}", f"raise {name}")
        if name != "NoCURIEDelimiterError":
            if name is None or not cx.model.is_subclass(name, "ValueError"):
                ob.violate(fn.qualname, where(fn, ctx.path.out[2]), f"_split raises {name}, not a ValueError-derived delimiter error", detail="raise-class")
            continue
        ok = True
        from ..rules import guard_atoms

        conds = guard_atoms(ctx.guards)
        good = False
        for c, pol in conds:
            # other spellings of "the separator does not occur": count == 0, find == -1 / < 0
            cnt = ("call", ("attr", curie, "count"), (sep,), ())
            fnd = ("call", ("attr", curie, "find"), (sep,), ())
            if c == cnt and pol is False:
                good = True
            if op(c) == "cmp" and c[2] == cnt and ((c[1], c[3]) in (("==", ("const", 0)), ("<", ("const", 1)), ("<=", ("const", 0)))) and pol is True:
                good = True
            if op(c) == "cmp" and c[2] == fnd and ((c[1], c[3]) in (("==", ("const", -1)), ("<", ("const", 0)), ("<=", ("const", -1)))) and pol is True:
                good = True
            if op(c) == "cmp" and c[2] == fnd and ((c[1], c[3]) in ((">=", ("const", 0)), (">", ("const", -1)))) and pol is False:
                good = True
            if op(c) == "item" and is_const(c[2], 1) and callee_name(c[1]) == "partition" and pol is False:
                good = True
            # the middle part of partition is the separator itself or '' (an empty separator raises before): != sep, == ''
            mid = lambda x: op(x) == "item" and is_const(x[2], 1) and callee_name(x[1]) == "partition" and x[1][2] == (sep,)  # noqa: E731
            if op(c) == "cmp" and c[1] == "==" and ((mid(c[2]) and c[3] == sep) or (mid(c[3]) and c[2] == sep)) and pol is False:
                good = True
            if op(c) == "cmp" and c[1] == "==" and ((mid(c[2]) and is_const(c[3], "")) or (mid(c[3]) and is_const(c[2], ""))) and pol is True:
                good = True
            if op(c) == "cmp" and c[1] in ("not in", "in") and c[2] == sep and c[3] == curie and ((c[1] == "not in") == pol):
                good = True
        if not good:
            ob.violate(fn.qualname, where(fn, ctx.path.out[2]), "NoCURIEDelimiterError is not raised exactly when the separator part is empty", witness=describe_path(ctx), detail="raise-guard")
    if not ok and not any(callee_name(P_) == "split" for P_ in [x for t, _ in rets for x in subterms(t) if op(x) == "call"]):
        ob.violate(fn.qualname, fn.where, "_split never raises NoCURIEDelimiterError: separator-free strings are accepted", detail="no-raise")
    d = fn.param("sep")
    import ast

    if d is None or not isinstance(d.default, ast.Constant) or d.default.value != ":":
        ob.violate(fn.qualname, fn.where, "default separator of _split is not ':'", detail="default-sep")


@obligation("C02-D2", "delimiter symmetry: parse_curie splits with sep=self.delimiter, the attribute format_curie joins with", floor=1)
def d2(cx: Cx, ob: Ob) -> None:
    check_parse_curie_delimiter(cx, ob)


def check_parse_curie_delimiter(cx: Cx, ob: Ob) -> None:
    fn = cx.fn(f"{CONV}.parse_curie", ob.id)
    s, hits = split_call_in(cx, fn, ob)
    me = ("param", fn.self_name)
    if not hits:
        # maybe partitions directly
        direct = [c for c, _, _ in s.calls() if callee_name(c) in ("partition", "split", "rpartition", "rsplit", "find", "index", "rfind", "rindex") and op(c[1]) == "attr" and c[1][1] == ("param", "curie")]
        if not direct:
            ob.undecide("parse_curie neither calls _split nor partitions its argument")
            return
        for c in direct:
            ob.site(fn, f"curie.{callee_name(c)}(...)")
            if callee_name(c) in ("find", "index"):
                # head = curie[:i], tail = curie[i + len(delimiter):] with i the position of the first delimiter
                if c[2][:1] != (("attr", me, "delimiter"),):
                    ob.violate(fn.qualname, fn.where, f"parse_curie searches `{show(c[2][0]) if c[2] else '?'}`, not self.delimiter", detail="sep")
                lend = ("call", ("builtin", "len"), (("attr", me, "delimiter"),), ())
                tails = 0
                for t_, ev_, _ in s.all_terms():
                    for x in subterms(t_):
                        if op(x) == "slice" and x[1] == ("param", "curie") and op(x[2]) == "bin" and x[2][1] == "+" and c in (x[2][2], x[2][3]):
                            other = x[2][3] if x[2][2] == c else x[2][2]
                            tails += 1
                            if is_const(other) and isinstance(other[1], int):
                                ob.violate(
                                    fn.qualname,
                                    where(fn, ev_.line),
                                    f"the identifier starts {other[1]} character(s) after the delimiter's position, not len(self.delimiter): wrong for every delimiter that is not exactly {other[1]} character(s) long",
                                    witness="Converter(..., delimiter='::').expand('ex::1') keeps a ':' in front of the identifier",
                                    detail="tail-offset",
                                )
                            elif other != lend:
                                ob.undecide(f"parse_curie cuts the identifier at `{show(x[2])[:50]}`")
                if not tails:
                    ob.undecide("parse_curie locates the delimiter with find/index but the identifier slice was not recognised")
                continue
            if callee_name(c) != "partition":
                ob.violate(fn.qualname, fn.where, f"parse_curie splits with str.{callee_name(c)}", detail="split-method")
            if c[2][:1] != (("attr", me, "delimiter"),):
                ob.violate(fn.qualname, fn.where, f"parse_curie splits at `{show(c[2][0]) if c[2] else '?'}`, not self.delimiter", detail="sep")
        return
    for c, ev, ctx in hits:
        ob.site(f"{where(fn, ev.line)} {fn.qualname}", f"{show(c)[:60]}")
        if c[2][:1] != (("param", "curie"),):
            ob.violate(fn.qualname, where(fn, ev.line), f"_split applied to `{show(c[2][0])[:40] if c[2] else '?'}`, not the raw curie", detail="split-arg")
        sep = dict(c[3]).get("sep")
        if sep is None:
            ob.violate(fn.qualname, where(fn, ev.line), "parse_curie calls _split without sep=self.delimiter: converters with a non-default delimiter split at ':'", witness="Converter(..., delimiter='/').expand('a/1')", detail="sep-missing")
        elif op(sep) == "snapshot":
            ob.violate(
                fn.qualname,
                where(fn, ev.line),
                f"parse_curie splits with a splitter bound in __init__ to the constructor argument `{sep[1]}`: the separator is fixed at construction, while format_curie / compress read self.delimiter every time - after `converter.delimiter = ...` CURIEs are written with one delimiter and parsed with another",
                witness="c.delimiter = '_': compress gives 'GO_1', is_curie('GO_1') is False and expand('GO_1') is None",
                detail="sep-snapshot",
            )
        elif sep != ("attr", me, "delimiter"):
            ob.violate(fn.qualname, where(fn, ev.line), f"parse_curie splits at `{show(sep)}`, not self.delimiter", detail="sep")


def none_scope(cx: Cx):
    fns = [m for m in cx.model.cls(CONV).methods.values()]
    for mod in ("curies.reconciliation", "curies.discovery", "curies.mapping_service.api", "curies.resolver_service"):
        if mod in cx.model.modules:
            fns += [f for f in cx.model.functions.values() if f.module.name == mod]
    fns += [f for f in cx.model.modules["curies.api"].functions.values()]
    fns += [m for c in cx.model.classes.values() if c.name == "Prefix" for m in c.methods.values()]
    return fns


@obligation("C02-D3", "LOOKUP None-discipline: results of prefix_map/synonym_to_prefix/reverse_prefix_map lookups and of str|None converter methods are tested with `is None`, never by truthiness ('' is a legitimate prefix)", floor=40)
def d3(cx: Cx, ob: Ob) -> None:
    scan_none_discipline(cx, ob, none_scope(cx))


@obligation("C02-D4", "IDX: prefix_map maps every prefix and synonym to the canonical URI prefix, synonym_to_prefix to the canonical prefix; constructor and _index agree", floor=4)
def d4(cx: Cx, ob: Ob) -> None:
    check_table_roles(cx, ob, ["prefix_map", "synonym_to_prefix"])


@obligation("C02-D5", "FLOW: the identifier flows untouched from the split through standardize_identifier into `prefix_map[prefix] + identifier`; lookup keys are the raw prefix", floor=2)
def d5(cx: Cx, ob: Ob) -> None:
    check_parse_curie_flow(cx, ob)
    check_expand_reference(cx, ob)


def check_parse_curie_flow(cx: Cx, ob: Ob) -> None:
    fn = cx.fn(f"{CONV}.parse_curie", ob.id)
    s = cx.summary(fn, ob.id)
    me = ("param", fn.self_name)
    n = 0
    for t, ctx in s.returns():
        if is_const(t, None):
            continue
        line = ctx.path.out[2]
        pa = reftuple_args(t)
        if pa is None:
            ob.undecide(f"parse_curie returns `{show(t)[:70]}`")
            continue
        n += 1
        P, I = pa
        ob.site(f"{where(fn, line)} {fn.qualname}", "success return")
        I2 = inline_methods(cx, I, me, CONV, {"standardize_identifier"})
        splits = [x for x in subterms(t) if op(x) == "call" and (x[1] == ("func", f"{API}._split") or (callee_name(x) == "partition" and op(x[1]) == "attr" and x[1][1] == ("param", "curie")))]
        if not splits:
            ob.undecide("parse_curie's result does not derive from a split of the curie")
            continue
        S = splits[0]
        tail_idx = 1 if S[1] == ("func", f"{API}._split") else 2
        if I2 != ("item", S, ("const", tail_idx)):
            if self_call(I2, me, "standardize_identifier"):
                ob.undecide("standardize_identifier is not the identity in the base class; cannot follow the identifier")
            else:
                ob.violate(fn.qualname, where(fn, line), f"identifier returned by parse_curie is `{show(I2)[:80]}`, not the untouched remainder of the split", detail="identifier-flow")
        # prefix: standardize_prefix(head)
        if not (self_call(P, me, "standardize_prefix") and P[2][:1] == (("item", S, ("const", 0)),)):
            ob.violate(fn.qualname, where(fn, line), f"prefix returned by parse_curie is `{show(P)[:80]}`, not standardize_prefix(<head of the split>)", detail="prefix-flow")
        else:
            kw = dict(P[3])
            if is_const(kw.get("passthrough"), True):
                ob.violate(fn.qualname, where(fn, line), "parse_curie standardises the prefix with passthrough=True: unknown prefixes are accepted", detail="prefix-passthrough")
    if n == 0:
        ob.undecide("parse_curie has no success return")


def check_expand_reference(cx: Cx, ob: Ob, alnum_identifiers: bool = False) -> None:
    fn = cx.fn(f"{CONV}.expand_reference", ob.id)
    s = cx.summary(fn, ob.id)
    me = ("param", fn.self_name)
    ref = ("param", fn.params[1].name)
    n = 0
    for t, ctx in s.returns():
        if is_const(t, None):
            continue
        parts = concat_parts(t)
        line = ctx.path.out[2]
        t_in = inline_methods(cx, t, me, CONV, {"format_curie"})
        flags = {g.a[1]: g.b for g in ctx.guards if g.kind == "guard" and op(g.a) == "param"}
        if flags.get("passthrough") is True:
            continue  # passthrough tail, checked by C08
        n += 1
        ob.site(f"{where(fn, line)} {fn.qualname}", f"return {show(t)[:60]}")
        if parts is None or len(parts) != 2:
            ob.violate(fn.qualname, where(fn, line), f"expansion is `{show(t)[:80]}`, not <URI prefix> + <identifier>", detail="concat-shape")
            continue
        U, I = parts
        ci = component(I)
        if (ci is None or ci[0] != ref or ci[1] != 1) and alnum_identifiers and any(component(x) == (ref, 1) for x in subterms(I)) and not any(component(x) == (ref, 0) for x in subterms(I)):
            # a transformation of the identifier alone: the caller's property speaks of alphanumeric identifiers
            q_ = [x for x in subterms(I) if op(x) == "call" and op(x[1]) == "ext" and x[1][1] in ("urllib.parse.quote", "urllib.parse.quote_plus", "urllib.parse.quote_from_bytes")]
            if q_:
                # known semantics: quote() percent-encodes EVERY non-ASCII character whatever `safe` says, and
                # str.isalnum() is true for non-ASCII letters and digits
                ob.violate(fn.qualname, where(fn, line), f"expansion appends `{show(I)[:60]}`: urllib.parse.quote percent-encodes every non-ASCII character (whatever `safe` lists), and alphanumeric identifiers may be non-ASCII (str.isalnum() accepts them) - such a URI no longer expands back to itself", witness="'http://ja.dbpedia.org/resource/東京' compresses to ns:東京 and expands to .../%E6%9D%B1%E4%BA%AC", detail="identifier-flow:quote")
                continue
            tr_ = [x for x in subterms(I) if op(x) == "call" and op(x[1]) == "attr" and x[1][2] == "translate" and len(x[2]) == 1 and op(x[2][0]) == "gconst"]
            if tr_:
                import ast as _ast

                mod_ = cx.model.modules.get(tr_[0][2][0][1])
                node_ = mod_.constants.get(tr_[0][2][0][2]) if mod_ is not None else None
                chars = None
                if isinstance(node_, _ast.DictComp) and len(node_.generators) == 1 and isinstance(node_.generators[0].iter, _ast.Constant) and isinstance(node_.generators[0].iter.value, str) and not node_.generators[0].ifs:
                    chars = node_.generators[0].iter.value
                if chars is not None and not any(ch.isalnum() for ch in chars):
                    ob.site(f"{where(fn, line)} {fn.qualname}", f"identifier put through str.translate over {chars!r}: none of these characters is alphanumeric")
                    continue
            ob.undecide(f"expansion appends `{show(I)[:60]}`, a transformed identifier: whether alphanumeric identifiers come through unchanged is not decided")
        elif ci is None or ci[0] != ref or ci[1] != 1:
            ob.violate(fn.qualname, where(fn, line), f"expansion appends `{show(I)[:60]}`, not the untouched identifier of the reference", detail="identifier-flow")
        key = None
        if op(U) == "call" and callee_name(U) == "get" and op(U[1]) == "attr" and U[1][1] == ("attr", me, "prefix_map") and len(U[2]) >= 1:
            key = U[2][0]
        elif op(U) == "item" and U[1] == ("attr", me, "prefix_map"):
            key = U[2]
        if key is None:
            ob.violate(fn.qualname, where(fn, line), f"URI prefix comes from `{show(U)[:60]}`, not from prefix_map", detail="uri-prefix-source")
            continue
        ck = component(key)
        if ck is None or ck[0] != ref or ck[1] != 0:
            ob.violate(fn.qualname, where(fn, line), f"prefix_map is looked up with `{show(key)[:60]}`, not the raw prefix of the reference", detail="lookup-key")
        # the guard on this path must be a None test of the same lookup
        gs = [(g.a, g.b) for g in ctx.guards if g.kind == "guard" and any(x == U for x in subterms(g.a))]
        if not gs and op(U) == "call":
            ob.violate(fn.qualname, where(fn, line), "result of prefix_map.get(...) is concatenated without a None test", detail="no-none-test")
    if n == 0:
        ob.undecide("expand_reference has no success return")


@obligation("C02-D6", "WRAP: expand and expand_pair funnel into expand_reference with their own strict/passthrough; expand_all = expand_pair_all(prefix, identifier) of parse_curie", floor=3)
def d6(cx: Cx, ob: Ob) -> None:
    check_expand_wrappers(cx, ob)


def check_expand_wrappers(cx: Cx, ob: Ob, only_expand_all: bool = False) -> None:
    if not only_expand_all:
        _check_expand_and_pair(cx, ob)
    _check_expand_all(cx, ob)


def _check_expand_and_pair(cx: Cx, ob: Ob) -> None:
    # expand
    fn = cx.fn(f"{CONV}.expand", ob.id)
    s = cx.summary(fn, ob.id)
    me = ("param", fn.self_name)
    found = False
    for t, ctx in s.returns():
        if is_const(t, None) or op(t) == "param":
            continue
        line = ctx.path.out[2]
        found = True
        ob.site(f"{where(fn, line)} {fn.qualname}", f"return {show(t)[:60]}")
        if not self_call(t, me, "expand_reference"):
            ob.funnel(fn.qualname, where(fn, line), f"expand returns `{show(t)[:70]}`, not expand_reference(parse_curie(curie))", any(self_call(x, me, "expand_reference") for x, _ in s.returns()), "expand_reference")
            continue
        R = t[2][0] if t[2] else None
        if not (self_call(R, me, "parse_curie") and R[2][:1] == (("param", "curie"),)):
            ob.violate(fn.qualname, where(fn, line), f"expand expands `{show(R)[:60]}`, not parse_curie(curie)", detail="base")
        elif is_const(dict(R[3]).get("strict"), True):
            pass
        _flags_forwarded(ob, fn, t, line, ("strict", "passthrough"))
    if not found:
        ob.undecide("expand has no success return")
    from .c01 import failure_needs_lookup

    failure_needs_lookup(cx, ob, fn, s, me, "curie")
    # expand_pair
    fn = cx.fn(f"{CONV}.expand_pair", ob.id)
    s = cx.summary(fn, ob.id)
    me = ("param", fn.self_name)
    for t, ctx in s.returns():
        line = ctx.path.out[2] if ctx.path.out else fn.node.lineno
        ob.site(f"{where(fn, line)} {fn.qualname}", f"return {show(t)[:60]}")
        if not self_call(t, me, "expand_reference"):
            ob.funnel(fn.qualname, where(fn, line), f"expand_pair returns `{show(t)[:70]}`, not expand_reference(...)", any(self_call(x, me, "expand_reference") for x, _ in s.returns()), "expand_reference")
            continue
        pa = reftuple_args(t[2][0]) if t[2] else None
        # the property speaks about strings: a path taken only for another type of argument (a float identifier
        # from a dataframe) is outside it, and str(x) of a string is x
        STR_T = ("builtin", "str")

        def _non_str_only(g) -> bool:
            a_ = g.a
            if not (g.kind == "guard" and g.b is True and op(a_) == "call" and a_[1] == ("builtin", "isinstance") and len(a_[2]) == 2 and a_[2][0] in (("param", "prefix"), ("param", "identifier"))):
                return False
            ts = a_[2][1][1] if op(a_[2][1]) == "tuple" else (a_[2][1],)
            return STR_T not in ts

        if any(_non_str_only(g) for g in ctx.guards):
            continue
        if pa is not None:
            pa = tuple(x[2][0] if op(x) == "call" and x[1] == STR_T and len(x[2]) == 1 and not x[3] and op(x[2][0]) == "param" else x for x in pa)
        if pa != (("param", "prefix"), ("param", "identifier")):
            ob.violate(fn.qualname, where(fn, line), f"expand_pair builds its reference from `{show(t[2][0])[:60] if t[2] else '?'}`, not (prefix, identifier) in that order", detail="pair")
        _flags_forwarded(ob, fn, t, line, ("strict", "passthrough"))


def _check_expand_all(cx: Cx, ob: Ob) -> None:
    from .c01 import failure_needs_lookup

    # expand_all
    fn = cx.fn(f"{CONV}.expand_all", ob.id)
    s = cx.summary(fn, ob.id)
    me = ("param", fn.self_name)
    found = False
    for t, ctx in s.returns():
        if is_const(t, None):
            continue
        found = True
        line = ctx.path.out[2]
        ob.site(f"{where(fn, line)} {fn.qualname}", f"return {show(t)[:60]}")
        if not self_call(t, me, "expand_pair_all") or len(t[2]) != 2:
            ob.funnel(fn.qualname, where(fn, line), f"expand_all returns `{show(t)[:70]}`, not expand_pair_all(prefix, identifier)", any(self_call(x, me, "expand_pair_all") for x, _ in s.returns()), "expand_pair_all")
            continue
        ca, cb = component(t[2][0]), component(t[2][1])
        base = ca[0] if ca and cb and ca[1] == 0 and cb[1] == 1 and ca[0] == cb[0] else None
        if base is not None and op(base) == "call" and op(base[1]) == "attr" and op(base[1][1]) == "cls" and base[1][2] == "from_curie" and base[2][:1] == (("param", "curie"),):
            # the CURIE cut in place by the reference classes' own splitter: expand_pair_all resolves synonyms itself
            # (get_record), so only the separator matters - it has to be the converter's
            sep = dict(base[3]).get("sep", base[2][1] if len(base[2]) > 1 else None)
            if sep == ("attr", me, "delimiter"):
                ob.site(f"{where(fn, line)} {fn.qualname}", "CURIE cut by from_curie(curie, sep=self.delimiter)")
            else:
                ob.violate(fn.qualname, where(fn, line), f"expand_all cuts the CURIE with {show(base)[:60]}: the separator is {'the default' if sep is None else show(sep)[:20]}, not self.delimiter, so a converter with another delimiter splits at the wrong place (or not at all)", witness="Converter(..., delimiter='/'): expand_all('GO/1') is None although expand('GO/1') resolves", detail="base-delimiter")
            continue
        if not (ca and cb and ca[1] == 0 and cb[1] == 1 and ca[0] == cb[0] and self_call(ca[0], me, "parse_curie") and ca[0][2][:1] == (("param", "curie"),)):
            ob.violate(fn.qualname, where(fn, line), "expand_all does not pass (prefix, identifier) of parse_curie(curie)", detail="base")
    if not found:
        ob.undecide("expand_all has no success return")
    failure_needs_lookup(cx, ob, fn, s, me, "curie")


def _flags_forwarded(ob: Ob, fn, t, line: int, flags) -> None:
    kw = dict(t[3])
    for f in flags:
        if fn.param(f) is None:
            continue
        v = kw.get(f)
        if v != ("param", f):
            ob.violate(fn.qualname, where(fn, line), f"`{f}` is not forwarded unchanged ({f}={show(v) if v else 'default'})", detail=f"flag:{f}")


@obligation("C02-D7", "expand_pair_all returns [uri_prefix + identifier, then one s + identifier per URI-prefix synonym] of get_record(prefix), nothing else; get_record matches prefix and synonyms", floor=2)
def d7(cx: Cx, ob: Ob) -> None:
    check_expand_pair_all(cx, ob)
    check_get_record(cx, ob)


def check_expand_pair_all(cx: Cx, ob: Ob) -> None:
    fn = cx.fn(f"{CONV}.expand_pair_all", ob.id)
    s = cx.summary(fn, ob.id)
    me = ("param", fn.self_name)
    prov = Prov(s)
    ident = ("param", "identifier")
    found = False
    seen_lines = set()
    for t, ctx in s.returns():
        if is_const(t, None):
            continue
        line = ctx.path.out[2]
        if line in seen_lines:
            continue
        seen_lines.add(line)
        found = True
        segs = list_segments(s, t, prov)
        ob.site(f"{where(fn, line)} {fn.qualname}", f"return {show(t)[:60]}")
        if segs is None:
            ob.undecide(f"list construction in expand_pair_all not recognised: {show(t)[:80]}")
            continue
        # flatten to (kind, source-field, conds)
        shape = []
        rec = None
        bad = False
        for seg in segs:
            kind = seg[0]
            if kind == "elem":
                parts = concat_parts(seg[1])
                if parts is None or len(parts) != 2 or parts[1] != ident:
                    ob.violate(fn.qualname, where(fn, line), f"element `{show(seg[1])[:60]}` is not <URI prefix> + identifier", detail="element-shape")
                    bad = True
                    continue
                src = parts[0]
                if op(src) == "attr":
                    rec = rec or src[1]
                    shape.append(("elem", src[2], seg[2], src[1]))
                else:
                    shape.append(("elem", "?", seg[2], None))
            else:
                it, elt, conds = seg[1], seg[2], seg[3]
                parts = concat_parts(elt)
                if parts is None or len(parts) != 2 or parts[0] != ("it",) or parts[1] != ident:
                    ob.violate(fn.qualname, where(fn, line), f"per-synonym element `{show(elt)[:60]}` is not <synonym> + identifier", detail="element-shape")
                    bad = True
                    continue
                if op(it) == "attr":
                    shape.append(("each", it[2], conds, it[1]))
                else:
                    shape.append(("each", "?", conds, None))
        if bad:
            continue
        names = [(k, f) for k, f, _, _ in shape]
        from ..rules import guard_atoms

        ci_ = cx.model.cls(CONV, ob.id)
        derived = [seg[1] for seg in segs if seg[0] != "elem" and any(op(x) == "attr" and x[1] == me and x[2] not in ("records",) and cx.model.find_method(ci_, x[2]) is None for x in subterms(seg[1]))]
        if derived and any(f == "?" for _, f in names):
            # the URI prefixes are taken from a table of the converter's own (derived state: C05-D7 asks that _index
            # maintains it), not from the record: that the table lists the record's URI prefixes, canonical first,
            # is a property of how it is maintained
            ob.undecide(f"expand_pair_all takes the URI prefixes from `{show(derived[0])[:50]}`, a derived table, not from the record found by get_record: its content and order are not followed")
            continue

        if names == [("elem", "uri_prefix")] and rec is not None and any(a == ("attr", rec, "uri_prefix_synonyms") and pol is False for a, pol in guard_atoms(ctx.guards)):
            # shortcut taken only when the record has no URI-prefix synonyms: the per-synonym part is empty
            names.append(("each", "uri_prefix_synonyms"))
            shape.append(("each", "uri_prefix_synonyms", (), rec))
        if names != [("elem", "uri_prefix"), ("each", "uri_prefix_synonyms")]:
            ob.violate(
                fn.qualname,
                where(fn, line),
                f"expand_pair_all yields {names}; expected the canonical URI prefix first, then exactly one entry per URI-prefix synonym",
                detail="sequence",
            )
            continue
        if any(c for _, _, c, _ in shape):
            ob.violate(fn.qualname, where(fn, line), "an expansion is emitted only conditionally", detail="conditional")
        recs = {r for _, _, _, r in shape}
        if len(recs) != 1:
            ob.violate(fn.qualname, where(fn, line), "canonical and synonym expansions come from different records", detail="cross-record")
            continue
        r = next(iter(recs))
        from ..rules import inline_functions

        r_in = inline_functions(cx, r)
        if op(r_in) == "call" and r_in[1] == ("builtin", "next") and r_in[2] and op(r_in[2][0]) == "comp" and len(r_in[2][0][3]) == 1 and r_in[2][0][3][0][1] == ("attr", me, "records") and r_in[2][0][2] == r_in[2][0][3][0][0] and len(r_in[2]) == 2 and is_const(r_in[2][1], None):
            # get_record written out in place: the first record of self.records one of whose CURIE-side names is the prefix
            import itertools

            from ..rules import formula_atoms, formula_eval

            tgt, it, ifs = r_in[2][0][3][0]
            prov.add_binding(tgt, it)
            formula = ("and", tuple(ifs)) if len(ifs) != 1 else ifs[0]
            atoms = formula_atoms(formula) if ifs else []
            rows = []
            for vals in itertools.product((True, False), repeat=len(atoms)):
                asg = dict(zip(atoms, vals))
                rows.append((asg, formula_eval(formula, asg) if ifs else True))
            ob.site(f"{where(fn, line)} {fn.qualname}", "record found by a first-match scan of self.records written out in place")
            _judge_scan(ob, fn, prov, ("param", "prefix"), line, tgt, atoms, rows, who="expand_pair_all's record scan")
            continue
        if (op(r) == "call" and not self_call(r, me, "get_record") and (self_call(r, me) or op(r[1]) == "func")) or any(op(x) in ("phi", "unk") for x in subterms(r)):
            # another lookup helper (an index, a binary search): whether it finds the record get_record finds is
            # a question about that helper, which this rule does not answer
            ob.undecide(f"expand_pair_all takes its record from `{show(r)[:60]}`, not from get_record(prefix): that this finds the same record is not decided")
        elif not (self_call(r, me, "get_record") and r[2][:1] == (("param", "prefix"),)):
            ob.violate(fn.qualname, where(fn, line), f"record is `{show(r)[:60]}`, not self.get_record(prefix)", detail="record-source")
    if not found:
        ob.undecide("expand_pair_all has no success return")


def _judge_scan(ob: Ob, fn, prov, probe, line, rec, atoms, rows, who: str = "get_record") -> None:
    """rows: (assignment, returns-the-record?) - the record must be returned exactly when one of its CURIE-side names equals the probe."""
    for a in atoms:
        for c in subterms(a):
            if op(c) == "cmp" and c[1] in ("in", "not in") and c[2] == probe and op(c[3]) == "attr" and c[3][2] in ("prefix", "uri_prefix"):
                ob.violate(fn.qualname, where(fn, line), f"{who} tests `{show(c)[:50]}`: `in` on the canonical {c[3][2]} (a str) is a SUBSTRING test - every name contained in a canonical prefix, the empty one included, finds that record", witness="'PO' finds the record of 'APO'; '' finds the first record", detail="substring:" + c[3][2])
                return
    for a in atoms:
        for c in subterms(a):
            if op(c) == "cmp" and c[1] in ("==", "in") and probe not in (c[2], c[3]):
                side = [x for x in (c[2], c[3]) if x != probe and any(y == probe for y in subterms(x)) and not any(op(y) == "attr" and y[2] in CURIE_SIDE for y in subterms(x))]
                other = [x for x in (c[2], c[3]) if any(op(y) == "attr" and y[2] in CURIE_SIDE for y in subterms(x))]
                if side and other and op(side[0]) in ("slice", "ifexp", "call", "concat", "bin", "item"):
                    ob.violate(
                        fn.qualname,
                        where(fn, line),
                        f"{who} compares the records' names with `{show(side[0])[:60]}`, a rewritten form of the name it is asked for: a record registered under the name as given is not found (or another record is), and names that no record carries find one",
                        witness="the name as asked for differs from its rewritten form exactly where the rewrite applies (a trailing delimiter, a case variant, surrounding blanks)",
                        detail="probe-rewritten",
                    )
                    return
    cover = {a: cmp_cover(prov, a, probe) for a in atoms}
    if any(r == "?" for c in cover.values() for r, _ in c):
        ob.undecide(f"{who} compares against an unrecognised term")
    names = {a: {f for r, f in c if r == rec and f in CURIE_SIDE} for a, c in cover.items()}
    extra_f = {a: {f for r, f in c if r != "?" and not (r == rec and f in CURIE_SIDE)} for a, c in cover.items()}
    bad_fields, extra = set(), set()
    for asg, returned in rows:
        true_names = set().union(*[names[a] for a in atoms if asg[a]]) if atoms else set()
        if true_names and not returned:
            bad_fields |= true_names if len(true_names) == 1 else set()
        if not true_names and returned:
            extra |= set().union(*[extra_f[a] or {"?"} for a in atoms if asg[a]]) if any(asg[a] for a in atoms) else {"unconditional"}
    # a field is missed when some assignment in which only it matches does not return the record
    missing = (CURIE_SIDE - set().union(*names.values())) | bad_fields if atoms else set(CURIE_SIDE)
    if missing:
        ob.violate(fn.qualname, where(fn, line), f"{who} does not match on {sorted(missing)}", witness="expand_pair_all(<synonym>, x) finds no record", detail="cover:" + "+".join(sorted(missing)))
    if extra:
        ob.violate(fn.qualname, where(fn, line), f"{who} also matches on {sorted(map(str, extra))}", detail="cover-extra")



def check_get_record(cx: Cx, ob: Ob) -> None:
    from ..rules import formula_atoms, formula_eval, truth_table
    import itertools

    fn = cx.fn(f"{CONV}.get_record", ob.id)
    s = cx.summary(fn, ob.id)
    me = ("param", fn.self_name)
    prov = Prov(s)
    probe = ("param", "prefix")
    ok = False

    def judge(line, rec, atoms, rows):
        _judge_scan(ob, fn, prov, probe, line, rec, atoms, rows)

    seen_loops = set()
    for t, ctx in s.returns():
        if is_const(t, None):
            continue
        line = ctx.path.out[2]
        if op(t) == "call" and t[1] == ("builtin", "next") and t[2] and op(t[2][0]) == "comp" and len(t[2][0][3]) == 1:
            # next((r for r in self.records if <match>), None): first match in record order
            ob.site(f"{where(fn, line)} {fn.qualname}", f"return {show(t)[:40]}")
            comp = t[2][0]
            tgt, it, ifs = comp[3][0]
            prov.add_binding(tgt, it)
            if it != ("attr", me, "records") or comp[2] != tgt:
                ob.undecide("get_record: generator does not yield the records of self.records")
                continue
            if len(t[2]) < 2 or not is_const(t[2][1], None):
                ob.violate(fn.qualname, where(fn, line), "get_record raises StopIteration for unknown prefixes instead of returning None", detail="no-default")
            formula = ("and", tuple(ifs)) if len(ifs) != 1 else ifs[0]
            atoms = formula_atoms(formula) if ifs else []
            rows = []
            for vals in itertools.product((True, False), repeat=len(atoms)):
                asg = dict(zip(atoms, vals))
                rows.append((asg, formula_eval(formula, asg) if ifs else True))
            ok = True
            judge(line, tgt, atoms, rows)
            continue
        if not ctx.loops or ctx.loops[-1].b != ("attr", me, "records"):
            ob.undecide("get_record does not scan self.records")
            continue
        loop = ctx.loops[-1]
        if id(loop) in seen_loops:
            continue
        seen_loops.add(id(loop))
        ob.site(f"{where(fn, line)} {fn.qualname}", f"return {show(t)[:40]}")
        atoms, rows0 = truth_table(loop.body)
        if rows0 is None:
            ob.undecide("get_record: too many distinct tests in the scan")
            continue
        rows = []
        for asg, hit in rows0:
            outs = {("ret" if (q.out is not None and q.out[0] == "return" and q.out[1] == t) else "other" if (q.out is not None and q.out[0] in ("return", "raise")) else "next") for q in hit}
            if "other" in outs:
                ob.undecide("get_record: the scan leaves the function with something other than the record")
            rows.append((asg, outs == {"ret"}))
        ok = True
        judge(line, t, atoms, rows)
    if not ok:
        ob.undecide("get_record has no record return")



@obligation("C02-X1", "OWN (shared with C10): no function that takes a converter stores into, mutates or captures the Record objects of its input - a converter whose records are changed behind its back no longer matches its own lookup tables", floor=6)
def x1(cx: Cx, ob: Ob) -> None:
    from .c10 import check_no_aliasing

    check_no_aliasing(cx, ob)


@obligation("C02-X2", "state closure (shared with C05): all derived converter state is maintained by _index, lookup tables are never rebound after construction, and no query method writes converter state (no stale caches)", floor=5)
def x2(cx: Cx, ob: Ob) -> None:
    from ..rules import state_closure

    state_closure(cx, ob)


@obligation("C02-X3", "no memoised derived values (cached_property / lru_cache) on Record, Reference or Converter objects, which are changed in place or copied with updates", floor=3)
def x3(cx: Cx, ob: Ob) -> None:
    from ..rules import cached_derivations

    cached_derivations(cx, ob)


@obligation("C02-X4", "uniqueness precondition (shared with C04): 'its unique record' - the strict constructor runs both duplicate detectors over all unordered pairs of records before any table is built, so prefix_map / synonym_to_prefix (last writer wins) and get_record (first match wins) cannot disagree", floor=4)
def x4(cx: Cx, ob: Ob) -> None:
    from .c04 import d1 as c04_order, d2 as c04_matrix

    c04_order(cx, ob)
    c04_matrix(cx, ob)


@obligation("C02-X5", "pairing (shared with C05-D4): every normally returning path of add_record merges or appends and then unconditionally re-indexes the changed record, so the lookup tables never lag behind the records", floor=2)
def x5(cx: Cx, ob: Ob) -> None:
    from .c05 import check_add_record_pairing

    check_add_record_pairing(cx, ob)


@obligation("C02-X8", "the Record model stores prefixes and URI prefixes verbatim: no pydantic string transformation (strip / case folding / length limits) in its model_config or field declarations", floor=1)
def x8(cx: Cx, ob: Ob) -> None:
    from ..rules import record_verbatim

    record_verbatim(cx, ob)


@obligation("C02-X10", "Converter.__init__ reads its (Iterable, possibly one-shot) `records` argument only through one materialising call (sorted/list) and keeps that fresh list - never the caller's list object, never sorted in place", floor=2)
def x10(cx: Cx, ob: Ob) -> None:
    from ..rules import constructor_owns_records

    constructor_owns_records(cx, ob)


@obligation("C02-X12", "def-use lints over the files this property is anchored in (api.py): no one-shot iterator (generator expression, map, filter, zip, iter, reversed, enumerate, generator call) bound to a name is consumed twice or inside a loop that starts after its creation; no mutable default argument is mutated, stored or returned; no binary search over a sequence that is not kept sorted; no container resized inside the loop that iterates it; no Iterable parameter consumed twice before it is materialised; itertools.groupby only over input sorted by the grouping key", floor=1)
def x12(cx: Cx, ob: Ob) -> None:
    from ..rules import package_lints

    package_lints(cx, ob, {'api.py'})


def check_identifier_hook(cx: Cx, ob: Ob) -> None:
    """The default Converter.standardize_identifier hands its identifier back unchanged on every path."""
    fn = cx.fn(f"{CONV}.standardize_identifier", ob.id)
    s = cx.summary(fn, ob.id)
    ident = ("param", "identifier") if fn.param("identifier") is not None else ("param", fn.params[-1].name)
    ob.site(f"{fn.where} {fn.qualname}", "default identifier hook")
    for t, ctx in s.returns():
        if t != ident:
            ob.violate(
                fn.qualname,
                where(fn, ctx.path.out[2]),
                f"the default standardize_identifier returns `{show(t)[:60]}` on some path instead of its identifier unchanged: expand / expand_all / standardize_curie (which go through the hook) rewrite or reject identifiers that expand_pair, compress and standardize_uri (which do not) keep",
                witness="expand('GO:GO:0032571') vs expand_pair('GO', 'GO:0032571'); or a record with a pattern and a non-matching identifier",
                detail="hook-not-identity",
            )
    for t, ctx in s.raises():
        ob.violate(fn.qualname, where(fn, ctx.path.out[2]), "the default standardize_identifier raises", detail="hook-raises")


@obligation("C02-D8", "the default standardize_identifier hook is the identity (the remainder of a CURIE reaches the URI untouched; expand and expand_pair agree)", floor=1)
def d8(cx: Cx, ob: Ob) -> None:
    check_identifier_hook(cx, ob)


@obligation("C02-X15", "configuration propagation (shared with C09-D4): converters derived from a converter keep its delimiter, so the derived converter splits and joins CURIEs where its parent does", floor=2)
def x15(cx: Cx, ob: Ob) -> None:
    from .c09 import d4 as propagation

    propagation(cx, ob)


@obligation("C02-X22", "a sub-converter answers for every name it was asked for (shared with C09-D3): get_subconverter keeps a record exactly when its canonical prefix OR one of its synonyms is requested, so expansion through a requested synonym still resolves", floor=1)
def x22(cx: Cx, ob: Ob) -> None:
    from .c09 import d3 as subconverter_selection

    subconverter_selection(cx, ob)


@obligation("C02-X16", "'its unique record' under incremental construction (shared with C05-D3/D5/D6): _match_record finds every existing record an incoming record overlaps with, add_record rejects a record that overlaps several and _merge adds names by exact membership - otherwise add_record / chain hand one prefix to two records and expand answers from the wrong one", floor=8)
def x16(cx: Cx, ob: Ob) -> None:
    from .c05 import check_match_record, check_merge, d3 as add_record_guards

    check_match_record(cx, ob)
    check_merge(cx, ob)
    add_record_guards(cx, ob)


@obligation("C02-X19", "records hold the names they were given (shared with C04-D3): the Record validators reject only a canonical value among the synonyms of its own side and otherwise keep every entry of the synonym lists - a validator that filters the lists (blank entries, repeated entries) removes names from every record built anywhere, so they are in no lookup table", floor=3)
def x19(cx: Cx, ob: Ob) -> None:
    from .c04 import d3 as validators

    validators(cx, ob)
