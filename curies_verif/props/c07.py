"""C07 - derived operations agree with the two primitive parsers."""

from __future__ import annotations

from ..report import Cx, Ob, describe, obligation
from ..rules import CONV, component, flag_values, other_kind_call, self_call, where
from ..summ import describe_path
from ..terms import callee_name, is_const, op, show, subterms
from .c01 import curie_join_check, format_curie_check, is_uri_check
from .c02 import _flags_forwarded

describe(
    "C07",
    "other",
    "Wrapper contracts on normalised terms (is_uri / is_curie are None-tests of compress / expand, compress_or_standardize and "
    "expand_or_standardize are the CURIE / canonical URI of parse(s), *_strict are the strict=True calls, format_curie joins with "
    "self.delimiter) and one ordering rule: in parse the URI test dominates the CURIE branch.",
    ["CPython ast"],
    [],
    ["the equivalences as value-level statements on ambiguous strings (they follow from the contracts)"],
)


@obligation("C07-D1", "is_uri(s) is a None-test of compress/parse_uri(s); is_curie(s) is a None-test of expand(s) (ValueError -> False)", floor=2)
def d1(cx: Cx, ob: Ob) -> None:
    is_uri_check(cx, ob)
    fn = cx.fn(f"{CONV}.is_curie", ob.id)
    s = cx.summary(fn, ob.id)
    me = ("param", fn.self_name)
    arg = ("param", fn.params[1].name)
    main = False
    for t, ctx in s.returns():
        handlers = [g for g in ctx.guards if g.kind == "except"]
        line = ctx.path.out[2] if ctx.path.out else fn.node.lineno
        if handlers:
            if not is_const(t, False):
                ob.violate(fn.qualname, where(fn, line), f"is_curie returns `{show(t)[:40]}` from its exception handler instead of False", detail="handler-value")
            for h in handlers:
                for n in h.a:
                    if not (n.split(".")[-1] == "ValueError" or cx.model.is_subclass(n.split(".")[-1], "ValueError")):
                        ob.violate(fn.qualname, where(fn, line), f"is_curie swallows {n}, which is broader than the library's ValueError family", detail="handler-class")
            continue
        ob.site(f"{where(fn, line)} {fn.qualname}", f"return {show(t)[:60]}")
        x = t[2] if op(t) == "cmp" and t[1] in ("is not", "!=") and is_const(t[3], None) else None
        if x is None:
            if self_call(t, me) and t[1][2] not in ("expand", "parse_curie"):
                ob.funnel(fn.qualname, where(fn, line), f"is_curie is defined through `{show(t)[:60]}`, not through expand/parse_curie of its argument", any(self_call(y, me) and y[1][2] in ("expand", "parse_curie", "expand_strict") for r_, _ in s.returns() for y in subterms(r_)), "expand / parse_curie", wrong=other_kind_call(t, me, "curie"))
                main = True
            elif is_const(t, False) and any(g.kind == "guard" and g.b is True and _uri_test(g.a, me, arg) == 1 for g in ctx.guards):
                ob.violate(
                    fn.qualname,
                    where(fn, line),
                    "is_curie answers False for every string the converter also recognises as a URI: a string can be both (a URI-prefix synonym such as 'GO:' or a CURIE prefix 'http'), and is_curie must still say whether it expands",
                    witness="records GO -> {http://.../GO_, synonym 'GO:'}: expand('GO:0032571') is not None but is_curie('GO:0032571') is False",
                    detail="uri-exclusion",
                )
            elif is_const(t, False) and any(g.kind == "guard" and g.b is False and g.a == ("cmp", "in", ("attr", me, "delimiter"), arg) for g in ctx.guards):
                # a string without the delimiter cannot be split (C02-D1: _split raises exactly then; C02-D2: parse_curie
                # splits at self.delimiter), so expand would raise the ValueError that is_curie answers with False
                ob.site(f"{where(fn, line)} {fn.qualname}", "shortcut: no delimiter in the string -> False")
            else:
                # a direct prefix test: <delimiter found> and <head> in synonym_to_prefix - the same answer as
                # "expand(s) is not None" exactly when the string is cut at the FIRST delimiter (as _split does)
                cuts = [c for c in subterms(t) if op(c) == "call" and op(c[1]) == "attr" and c[1][1] == arg and c[1][2] in ("partition", "rpartition", "split", "rsplit")]
                if cuts and all(c[2][:1] == (("attr", me, "delimiter"),) for c in cuts):
                    main = True
                    ob.site(f"{where(fn, line)} {fn.qualname}", f"direct prefix test via str.{cuts[0][1][2]}")
                    if any(c[1][2] in ("rpartition", "rsplit") for c in cuts):
                        ob.violate(
                            fn.qualname,
                            where(fn, line),
                            f"is_curie cuts its argument with str.{[c[1][2] for c in cuts if c[1][2] in ('rpartition', 'rsplit')][0]}, i.e. at the LAST delimiter, while parse_curie / expand cut at the first: for identifiers containing the delimiter the two disagree",
                            witness="expand('GO:GO:0000001') resolves prefix 'GO', is_curie looks up 'GO:GO' and says False",
                            detail="last-occurrence",
                        )
                    elif any(c[1][2] == "split" and not (len(c[2]) > 1 and is_const(c[2][1], 1)) and not is_const(dict(c[3]).get("maxsplit"), 1) for c in cuts):
                        ob.undecide("is_curie splits at every delimiter")
                    tabs = [x for x in subterms(t) if op(x) == "cmp" and x[1] == "in" and op(x[3]) == "attr" and x[3][1] == me]
                    if not tabs or any(x[3][2] not in ("synonym_to_prefix", "prefix_map") for x in tabs):
                        ob.undecide(f"is_curie tests `{show(t)[:60]}`")
                else:
                    ob.undecide(f"is_curie returns `{show(t)[:60]}`, not a None-test")
            continue
        main = True
        if self_call(x, me) and x[1][2] in ("expand", "parse_curie", "expand_strict") and x[2][:1] == (arg,):
            kw = dict(x[3])
            if is_const(kw.get("passthrough"), True):
                ob.violate(fn.qualname, where(fn, line), "is_curie calls expand(passthrough=True), which never returns None", detail="passthrough")
            if is_const(kw.get("strict"), True) or x[1][2] == "expand_strict":
                # acceptable only if a handler turns the error into False
                if not any(ev.kind == "except" for p in s.paths for ev in p.events):
                    ob.violate(fn.qualname, where(fn, line), "is_curie calls the strict variant without handling its error", detail="strict")
        else:
            ob.funnel(fn.qualname, where(fn, line), f"is_curie is defined through `{show(x)[:60]}`, not through expand/parse_curie of its argument", any(self_call(y, me) and y[1][2] in ("expand", "parse_curie", "expand_strict") for r_, _ in s.returns() for y in subterms(r_)), "expand / parse_curie", wrong=other_kind_call(t, me, "curie"))
    if not main:
        ob.undecide("is_curie has no main return")
    from .c01 import failure_needs_lookup

    failure_needs_lookup(cx, ob, fn, s, me, "curie")


def _uri_test(t, me, arg):
    """+1 if ``t`` true means 'recognised as URI', else None."""
    if self_call(t, me, "is_uri") and t[2][:1] == (arg,):
        return 1
    if op(t) == "cmp" and is_const(t[3], None) and self_call(t[2], me) and t[2][1][2] in ("parse_uri", "compress") and t[2][2][:1] == (arg,):
        return 1 if t[1] in ("is not", "!=") else -1
    return None


def _curie_test(t, me, arg):
    if self_call(t, me, "is_curie") and t[2][:1] == (arg,):
        return 1
    if op(t) == "cmp" and is_const(t[3], None) and self_call(t[2], me) and t[2][1][2] in ("parse_curie", "expand") and t[2][2][:1] == (arg,):
        return 1 if t[1] in ("is not", "!=") else -1
    return None


@obligation("C07-D2", "ORDER: in parse the URI test dominates the CURIE branch; URI branch returns parse_uri(s, return_none=True), CURIE branch parse_curie(s); strictness forwarded", floor=2)
def d2(cx: Cx, ob: Ob) -> None:
    fn = cx.fn(f"{CONV}.parse", ob.id)
    s = cx.summary(fn, ob.id)
    me = ("param", fn.self_name)
    arg = ("param", fn.params[1].name)
    seen = set()
    n_uri = n_curie = 0
    for t, ctx in s.returns():
        if is_const(t, None):
            continue
        line = ctx.path.out[2]
        calls = [x for x in subterms(t) if self_call(x, me) and x[1][2] in ("parse_uri", "parse_curie")]
        if not calls:
            ob.undecide(f"parse returns `{show(t)[:60]}`")
            continue
        c = calls[0]
        if c[2][:1] != (arg,):
            ob.violate(fn.qualname, where(fn, line), f"parse hands `{show(c[2][0])[:40] if c[2] else '?'}` to {c[1][2]}, not its raw argument", detail=f"arg:{c[1][2]}")
        uri_state = None  # True: recognised, False: rejected
        curie_state = None
        order = []
        for g in ctx.guards:
            if g.kind != "guard":
                continue
            u = _uri_test(g.a, me, arg)
            if u is not None:
                uri_state = (u > 0) == g.b
                order.append("uri")
            k = _curie_test(g.a, me, arg)
            if k is not None:
                curie_state = (k > 0) == g.b
                order.append("curie")
        key = (c[1][2], line)
        if key not in seen:
            seen.add(key)
            ob.site(f"{where(fn, line)} {fn.qualname}", f"return {show(t)[:50]} under {describe_path(ctx)[:80]}")
        fl = flag_values(ctx)
        kw = dict(c[3])
        sv = kw.get("strict")
        if sv is not None and "strict" in fl and is_const(sv) and sv[1] != fl["strict"]:
            ob.violate(fn.qualname, where(fn, line), f"under strict={fl['strict']} parse calls {c[1][2]}(strict={sv[1]})", detail=f"strict-forward:{c[1][2]}")
        if sv is None and fn.param("strict") is not None and c[1][2] == "parse_curie" and fl.get("strict") is True:
            ob.violate(fn.qualname, where(fn, line), "strict is not forwarded to parse_curie", detail="strict-forward:parse_curie")
        if c[1][2] == "parse_curie":
            n_curie += 1
            if uri_state is not False:
                ob.violate(
                    fn.qualname,
                    where(fn, line),
                    "the CURIE parse is returned on a path where the URI test has not failed first: strings that are both a URI and a CURIE of the converter are parsed as CURIEs",
                    witness=f"path: {describe_path(ctx)}",
                    detail="curie-before-uri",
                )
        else:
            n_uri += 1
            if curie_state is False:
                ob.violate(fn.qualname, where(fn, line), "the URI parse is only reached after the CURIE test failed", witness=f"path: {describe_path(ctx)}", detail="uri-after-curie")
            if not is_const(kw.get("return_none"), True):
                ob.violate(fn.qualname, where(fn, line), "parse calls parse_uri without return_none=True (legacy (None, None) result)", detail="return-none")
    # 'otherwise nothing': the failure answer is given only after the URI test has failed (the CURIE side may be cut
    # short by a test of its own - a string without the delimiter is no CURIE - the URI side may not)
    reported_early = False
    for o, ctx in s.outcomes():
        if o is None or reported_early:
            continue
        failing = (o[0] == "return" and is_const(o[1], None)) or (o[0] == "raise" and op(o[1]) == "call" and callee_name(o[1]) in ("CompressionError", "ExpansionError", "ValueError"))
        if not failing or any(g.kind == "except" for g in ctx.guards):
            continue
        uri_seen = any(g.kind == "guard" and _uri_test(g.a, me, arg) is not None for g in ctx.guards)
        if not uri_seen and n_uri:
            reported_early = True
            ob.violate(
                fn.qualname,
                where(fn, o[2]),
                f"parse gives its failure answer on a path that has not asked whether the string is a URI of the converter (under {describe_path(ctx)[:70]}): a recognised URI that meets that condition - no delimiter of this converter in it, ... - is answered with nothing although is_uri / compress / parse_uri accept it",
                witness="Converter(records, delimiter='|').parse('http://purl.obolibrary.org/obo/GO_1'), or a URI prefix without a scheme and the default delimiter",
                detail="failure-before-uri-test",
            )
    if n_uri == 0:
        # no return goes through parse_uri: either the URI side is gone, or it is answered another way (through
        # compress and a re-split of its CURIE, ...), which this rule does not follow
        other = [t for t, _ in s.returns() if any(self_call(x, me) and x[1][2] in ("compress", "compress_strict", "is_uri") for x in subterms(t))] + [g for p_ in s.paths for g in p_.events if g.kind == "guard" and any(self_call(x, me) and x[1][2] in ("compress", "compress_strict") for x in subterms(g.a))]
        if other:
            ob.undecide("parse answers for URIs without parse_uri (through compress / a re-split of the CURIE): that it returns what parse_uri returns is not decided")
        else:
            ob.violate(fn.qualname, fn.where, "parse never returns the URI parse", detail="no-uri-branch")
    if n_curie == 0:
        ob.violate(fn.qualname, fn.where, "parse never returns the CURIE parse", detail="no-curie-branch")


def _is_parse_of(param: str):
    def pred(base, me):
        return self_call(base, me, "parse") and base[2][:1] == (("param", param),) and not is_const(dict(base[3]).get("strict"), True)

    return pred


@obligation("C07-D3", "compress_or_standardize(s) = format_curie(prefix, identifier) of parse(s, strict=False); expand_or_standardize(s) = expand_reference(parse(s, strict=False)) with flags forwarded", floor=2)
def d3(cx: Cx, ob: Ob) -> None:
    fn = cx.fn(f"{CONV}.compress_or_standardize", ob.id)
    curie_join_check(cx, ob, "compress_or_standardize", _is_parse_of(fn.params[1].name), "self.parse(<argument>, strict=False)")
    fn = cx.fn(f"{CONV}.expand_or_standardize", ob.id)
    s = cx.summary(fn, ob.id)
    me = ("param", fn.self_name)
    found = False
    for t, ctx in s.returns():
        if is_const(t, None) or op(t) == "param":
            continue
        found = True
        line = ctx.path.out[2]
        ob.site(f"{where(fn, line)} {fn.qualname}", f"return {show(t)[:60]}")
        if not self_call(t, me, "expand_reference"):
            ob.funnel(fn.qualname, where(fn, line), f"expand_or_standardize returns `{show(t)[:70]}`, not expand_reference(parse(...))", any(self_call(x, me, "expand_reference") for x, _ in s.returns()), "expand_reference")
            continue
        R = t[2][0] if t[2] else None
        if not _is_parse_of(fn.params[1].name)(R, me):
            ob.violate(fn.qualname, where(fn, line), f"expand_or_standardize expands `{show(R)[:60]}`, not parse(<argument>, strict=False)", detail="base")
        _flags_forwarded(ob, fn, t, line, ("strict", "passthrough"))
    if not found:
        ob.undecide("expand_or_standardize has no success return")


@obligation("C07-D4", "compress_strict / expand_strict are exactly the strict=True calls; format_curie joins with self.delimiter", floor=3)
def d4(cx: Cx, ob: Ob) -> None:
    for name, target in (("compress_strict", "compress"), ("expand_strict", "expand")):
        fn = cx.fn(f"{CONV}.{name}", ob.id)
        s = cx.summary(fn, ob.id)
        me = ("param", fn.self_name)
        arg = ("param", fn.params[1].name)
        for t, ctx in s.returns():
            ob.site(fn, f"return {show(t)[:60]}")
            if not (self_call(t, me, target) and t[2][:1] == (arg,)):
                ob.funnel(fn.qualname, fn.where, f"{name} returns `{show(t)[:60]}`, not self.{target}(<argument>, strict=True)", any(self_call(x, me, target) for x, _ in s.returns()), f"self.{target}")
                continue
            kw = dict(t[3])
            if not is_const(kw.get("strict"), True):
                ob.violate(fn.qualname, fn.where, f"{name} does not pass strict=True", detail="strict")
            if is_const(kw.get("passthrough"), True):
                ob.violate(fn.qualname, fn.where, f"{name} passes passthrough=True", detail="passthrough")
        # "equal the strict=True calls" includes how they fail: the wrapper raises nothing of its own (a handler
        # that re-raises what it caught, unchanged, adds nothing)
        for t, ctx in s.raises():
            if t is None or op(t) in ("reraise",) or is_const(t, None):
                continue
            cls_ = t[1][1].rsplit(".", 1)[-1] if op(t) == "call" and op(t[1]) in ("cls", "builtin", "ext") else show(t)[:30]
            if op(t) == "reraise":
                continue
            tfn = cx.model.functions.get(f"{CONV}.{target}")
            target_raises = set()
            if tfn is not None:
                for rt, _ in cx.summary(tfn, ob.id).raises():
                    if op(rt) == "call" and op(rt[1]) in ("cls", "builtin", "ext"):
                        target_raises.add(rt[1][1].rsplit(".", 1)[-1])
            if cls_ in target_raises or cls_ == {"compress": "CompressionError", "expand": "ExpansionError"}[target]:
                ob.site(f"{where(fn, ctx.path.out[2])} {fn.qualname}", f"raises {cls_}, the class self.{target}(strict=True) raises")
                continue
            caught = [g.a for g in ctx.path.events if g.kind == "except"]
            if caught and isinstance(caught[-1], tuple) and any(isinstance(c_, str) and (cls_ == c_ or cx.model.is_subclass(cls_, c_)) for c_ in caught[-1]):
                # the same class the strict call raised, with another message
                ob.site(f"{where(fn, ctx.path.out[2])} {fn.qualname}", f"re-raises {cls_} with its own message")
                continue
            ob.violate(
                fn.qualname,
                where(fn, ctx.path.out[2]),
                f"{name} raises {cls_} of its own on some inputs: self.{target}(<argument>, strict=True) raises the library's {target.capitalize()[:-1] if False else ''}conversion error there, so the wrapper and the strict call no longer agree (callers that catch the documented ValueError subclass miss it)",
                witness=f"{name}(<a string of the other kind the converter knows>): TypeError vs {'CompressionError' if target == 'compress' else 'ExpansionError'}",
                detail=f"wrapper-raises:{cls_}",
            )
    format_curie_check(cx, ob)



@obligation("C07-X2", "state closure (shared with C05): all derived converter state is maintained by _index, lookup tables are never rebound after construction, and no query method writes converter state (no stale caches)", floor=5)
def x2(cx: Cx, ob: Ob) -> None:
    from ..rules import state_closure

    state_closure(cx, ob)


@obligation("C07-D5", "MODE tail shape of parse / compress_or_standardize / expand_or_standardize and the functions they delegate to: the unmodified input is echoed only under passthrough, None only in the default mode", floor=12)
def d5(cx: Cx, ob: Ob) -> None:
    from .c08 import check_tails

    check_tails(cx, ob, ["parse", "compress_or_standardize", "expand_or_standardize", "compress", "expand"])


@obligation("C07-D6", "is_uri classifies through compress, so compress must succeed exactly when parse_uri does: its success path tests nothing but the existence of the parsed reference (shared with C01-D4)", floor=2)
def d6(cx: Cx, ob: Ob) -> None:
    from .c01 import curie_join_check, is_parse_uri_of, is_uri_check

    is_uri_check(cx, ob)
    curie_join_check(cx, ob, "compress", is_parse_uri_of("uri"), "self.parse_uri(uri, ...)")


@obligation("C07-X6", "LOOKUP None-discipline (shared with C02-D3): lookup results and str|None results are tested with `is None`, never by truthiness - the empty prefix, the empty URI prefix and the empty identifier are legitimate values", floor=40)
def x6(cx: Cx, ob: Ob) -> None:
    from ..rules import scan_none_discipline
    from .c02 import none_scope

    scan_none_discipline(cx, ob, none_scope(cx))


@obligation("C07-X7", "IDX (shared with C01/C02): the tables is_uri / is_curie / parse consult - prefix_map, synonym_to_prefix, reverse_prefix_map, trie - hold every prefix, synonym, URI prefix and URI-prefix synonym of every record, unconditionally and completely, on the constructor path and in _index ('its prefix is known' means known to the records)", floor=8)
def x7(cx: Cx, ob: Ob) -> None:
    from .c01 import check_table_roles

    check_table_roles(cx, ob, ["prefix_map", "synonym_to_prefix", "reverse_prefix_map", "trie"])


@obligation("C07-X5", "pairing (shared with C05-D4): every normally returning path of add_record merges or appends and then unconditionally re-indexes the changed record", floor=2)
def x5(cx: Cx, ob: Ob) -> None:
    from .c05 import check_add_record_pairing

    check_add_record_pairing(cx, ob)


@obligation("C07-X12", "def-use lints over the files this property is anchored in (api.py): no one-shot iterator (generator expression, map, filter, zip, iter, reversed, enumerate, generator call) bound to a name is consumed twice or inside a loop that starts after its creation; no mutable default argument is mutated, stored or returned; no binary search over a sequence that is not kept sorted; no container resized inside the loop that iterates it; no Iterable parameter consumed twice before it is materialised; itertools.groupby only over input sorted by the grouping key", floor=1)
def x12(cx: Cx, ob: Ob) -> None:
    from ..rules import package_lints

    package_lints(cx, ob, {'api.py'})


@obligation("C07-X14", "the default standardize_identifier hook is the identity (shared with C02-D8): the CURIE-side operations accept and keep exactly the identifiers the URI-side operations produce", floor=1)
def x14(cx: Cx, ob: Ob) -> None:
    from .c02 import check_identifier_hook

    check_identifier_hook(cx, ob)


@obligation("C07-X15", "configuration propagation (shared with C09-D4): converters derived from a converter keep its delimiter, so the derived converter splits and joins CURIEs where its parent does", floor=2)
def x15(cx: Cx, ob: Ob) -> None:
    from .c09 import d4 as propagation

    propagation(cx, ob)


@obligation("C07-X21", "is_curie / parse split where format_curie joins: parse_curie splits with sep=self.delimiter through _split (first occurrence, NoCURIEDelimiterError when absent - the class parse_curie and is_curie handle) (shared with C02-D1/D2)", floor=3)
def x21(cx: Cx, ob: Ob) -> None:
    from .c02 import check_parse_curie_delimiter, check_split

    check_split(cx, ob)
    check_parse_curie_delimiter(cx, ob)


@obligation("C07-X1", "OWN (shared with C10): no function keeps the Record objects of a converter it was given inside another converter - a later merge there adds names to the records of the first converter that its lookup tables do not know, and is_curie / expand / parse then deny a prefix the converter lists", floor=6)
def x1(cx: Cx, ob: Ob) -> None:
    from .c10 import check_no_aliasing

    check_no_aliasing(cx, ob)


@obligation("C07-X19", "expand_reference (shared with C02-D5), through which expand / expand_strict / expand_or_standardize answer: the URI is <the URI prefix prefix_map holds for the reference's prefix, as registered> + <the identifier, untouched> - anything else is a URI the same converter does not compress back", floor=1)
def x19(cx: Cx, ob: Ob) -> None:
    from .c02 import d5 as expand_reference_rule

    expand_reference_rule.fn(cx, ob) if hasattr(expand_reference_rule, "fn") else expand_reference_rule(cx, ob)


@obligation("C07-X3", "no memoised derived values (cached_property / lru_cache) on Record, Reference or Converter objects (shared with C05): is_curie / expand / parse and the *_or_standardize functions answer from tables built from the records' name lists - a cached view of those lists (or of a query result) that outlives an in-place merge makes 'its prefix is known' disagree with what the records say", floor=3)
def x3(cx: Cx, ob: Ob) -> None:
    from ..rules import cached_derivations

    cached_derivations(cx, ob)
