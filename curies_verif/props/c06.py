"""C06 - standardisation is canonical, idempotent and meaning-preserving."""

from __future__ import annotations

from ..report import Cx, Ob, describe, obligation
from ..rules import CONV, scan_none_discipline, self_call, where
from ..terms import callee_name, is_const, op, show, subterms
from .c01 import check_table_roles, curie_join_check, format_curie_check
from .c03 import check_standardize_uri
from .c08 import check_no_raise, check_strict_classes, check_tails

describe(
    "C06",
    "other",
    "Structural necessary conditions of canonical standardisation: standardize_prefix is a raw-key lookup in synonym_to_prefix with a "
    "None-test (the empty prefix is legitimate); synonym_to_prefix maps every canonical prefix to itself and every synonym to its "
    "canonical prefix (idempotence is then immediate); standardize_curie = format_curie(*parse_curie(c)) with the identifier untouched; "
    "standardize_uri = prefix_map[parse_uri(u).prefix] + identifier; failure tails obey the mode discipline of C08.",
    ["CPython ast", "dict.get semantics"],
    [],
    ["idempotence / meaning preservation as equalities (consequences of D2-D4 and the C03 argument)"],
)

STD = ["standardize_prefix", "standardize_curie", "standardize_uri"]


@obligation("C06-D1", "standardize_prefix returns synonym_to_prefix[prefix] looked up with the raw argument and tested with `is not None`", floor=2)
def d1(cx: Cx, ob: Ob) -> None:
    fn = cx.fn(f"{CONV}.standardize_prefix", ob.id)
    scan_none_discipline(cx, ob, [fn])
    s = cx.summary(fn, ob.id)
    me = ("param", fn.self_name)
    found = False
    for t, ctx in s.returns():
        if is_const(t, None) or t == ("param", "prefix"):
            continue
        found = True
        line = ctx.path.out[2]
        ob.site(f"{where(fn, line)} {fn.qualname}", f"return {show(t)[:60]}")
        key = None
        if op(t) == "call" and callee_name(t) == "get" and op(t[1]) == "attr" and t[1][1] == ("attr", me, "synonym_to_prefix"):
            key = t[2][0] if t[2] else None
            if len(t[2]) > 1 and not is_const(t[2][1], None):
                ob.violate(fn.qualname, where(fn, line), "synonym_to_prefix.get is given a non-None default: unknown prefixes are mapped to something", detail="default")
        elif op(t) == "item" and t[1] == ("attr", me, "synonym_to_prefix"):
            key = t[2]
        if key is None:
            ob.violate(fn.qualname, where(fn, line), f"standardize_prefix returns `{show(t)[:70]}`, not the synonym_to_prefix entry of its argument", detail="source")
            continue
        if key != ("param", "prefix"):
            ob.violate(fn.qualname, where(fn, line), f"synonym_to_prefix is looked up with `{show(key)[:50]}`, not the raw prefix (case variants must stay unknown)", detail="lookup-key")
    if not found:
        ob.undecide("standardize_prefix has no success return")


@obligation("C06-D2", "IDX: synonym_to_prefix maps the canonical prefix to itself and each synonym to the canonical prefix (constructor and _index)", floor=2)
def d2(cx: Cx, ob: Ob) -> None:
    check_table_roles(cx, ob, ["synonym_to_prefix"])


def _is_parse_curie(base, me):
    return self_call(base, me, "parse_curie") and base[2][:1] == (("param", "curie"),) and not is_const(dict(base[3]).get("strict"), True)


@obligation("C06-D3", "standardize_curie = format_curie(prefix, identifier) of parse_curie(curie), joined with self.delimiter", floor=2)
def d3(cx: Cx, ob: Ob) -> None:
    curie_join_check(cx, ob, "standardize_curie", _is_parse_curie, "self.parse_curie(curie)")
    format_curie_check(cx, ob)


@obligation("C06-D4", "standardize_uri = prefix_map[parse_uri(uri).prefix] + identifier", floor=1)
def d4(cx: Cx, ob: Ob) -> None:
    check_standardize_uri(cx, ob)


@obligation("C06-D5", "MODE: failure tails of standardize_prefix/_curie/_uri: no raise unless strict, only ValueError-derived library errors under strict, None/echo/raise discipline", floor=20)
def d5(cx: Cx, ob: Ob) -> None:
    check_no_raise(cx, ob, STD)
    check_strict_classes(cx, ob, STD)
    check_tails(cx, ob, STD)



@obligation("C06-X1", "OWN (shared with C10): no function that takes a converter stores into, mutates or captures the Record objects of its input - a converter whose records are changed behind its back no longer matches its own lookup tables", floor=6)
def x1(cx: Cx, ob: Ob) -> None:
    from .c10 import check_no_aliasing

    check_no_aliasing(cx, ob)


@obligation("C06-X2", "state closure (shared with C05): all derived converter state is maintained by _index, lookup tables are never rebound after construction, and no query method writes converter state (no stale caches)", floor=5)
def x2(cx: Cx, ob: Ob) -> None:
    from ..rules import state_closure

    state_closure(cx, ob)


@obligation("C06-X5", "pairing (shared with C05-D4): every normally returning path of add_record merges or appends and then unconditionally re-indexes the changed record, so the lookup tables never lag behind the records", floor=2)
def x5(cx: Cx, ob: Ob) -> None:
    from .c05 import check_add_record_pairing

    check_add_record_pairing(cx, ob)


@obligation("C06-X6", "LOOKUP None-discipline (shared with C02-D3): lookup results and str|None results are tested with `is None`, never by truthiness - the empty prefix, the empty URI prefix and the empty identifier are legitimate values", floor=40)
def x6(cx: Cx, ob: Ob) -> None:
    from ..rules import scan_none_discipline
    from .c02 import none_scope

    scan_none_discipline(cx, ob, none_scope(cx))


@obligation("C06-X7", "IDX (shared with C01/C02): the lookup tables consulted by standardize_prefix / _curie / _uri hold every name of every record, unconditionally and completely, on the constructor path and in _index (converters built incrementally answer like freshly built ones)", floor=4)
def x7(cx: Cx, ob: Ob) -> None:
    from .c01 import check_table_roles

    check_table_roles(cx, ob, ["prefix_map", "synonym_to_prefix", "reverse_prefix_map", "trie"])


@obligation("C06-X8", "the Record model stores prefixes and URI prefixes verbatim: no pydantic string transformation (strip / case folding / length limits) in its model_config or field declarations", floor=1)
def x8(cx: Cx, ob: Ob) -> None:
    from ..rules import record_verbatim

    record_verbatim(cx, ob)


@obligation("C06-D6", "standardize_curie rewrites only the prefix part: _split cuts at the first occurrence of the (possibly multi-character) delimiter and the identifier flows untouched through parse_curie / standardize_identifier (shared with C02-D1/D5)", floor=3)
def d6(cx: Cx, ob: Ob) -> None:
    from .c02 import check_parse_curie_delimiter, check_parse_curie_flow, check_split

    check_split(cx, ob)
    check_parse_curie_delimiter(cx, ob)
    check_parse_curie_flow(cx, ob)


@obligation("C06-X12", "def-use lints over the files this property is anchored in (api.py): no one-shot iterator (generator expression, map, filter, zip, iter, reversed, enumerate, generator call) bound to a name is consumed twice or inside a loop that starts after its creation; no mutable default argument is mutated, stored or returned; no binary search over a sequence that is not kept sorted; no container resized inside the loop that iterates it; no Iterable parameter consumed twice before it is materialised; itertools.groupby only over input sorted by the grouping key", floor=1)
def x12(cx: Cx, ob: Ob) -> None:
    from ..rules import package_lints

    package_lints(cx, ob, {'api.py'})


@obligation("C06-X14", "the default standardize_identifier hook is the identity (shared with C02-D8): the CURIE-side operations accept and keep exactly the identifiers the URI-side operations produce", floor=1)
def x14(cx: Cx, ob: Ob) -> None:
    from .c02 import check_identifier_hook

    check_identifier_hook(cx, ob)


@obligation("C06-X18", "standardize_uri keeps the identifier: parse_uri queries the trie with the unmodified URI and returns the input minus exactly the matched prefix (shared with C01-D2/D3)", floor=2)
def x18(cx: Cx, ob: Ob) -> None:
    from .c01 import check_parse_uri_lookup, check_remainder

    check_parse_uri_lookup(cx, ob)
    check_remainder(cx, ob)


@obligation("C06-X10", "Converter.__init__ reads its (Iterable, possibly one-shot) `records` argument only through one materialising call (sorted/list) and builds EVERY lookup table from that list (shared with C10-X10): a table built from the raw argument is empty for generators, and standardisation through it fails for names the records list", floor=2)
def x10(cx: Cx, ob: Ob) -> None:
    from ..rules import constructor_owns_records

    constructor_owns_records(cx, ob)


@obligation("C06-X16", "incremental construction (shared with C05-D3/D5/D6): _match_record compares the full cover through _eq/_in in both case modes, _merge adds names by exact membership, add_record rejects ambiguous records - otherwise one URI prefix ends up owned by two records and standardisation rewrites one record's names to the other's", floor=8)
def x16(cx: Cx, ob: Ob) -> None:
    from .c05 import check_match_record, check_merge, d3 as add_record_guards

    check_match_record(cx, ob)
    check_merge(cx, ob)
    add_record_guards(cx, ob)


@obligation("C06-X3", "no memoised derived values (cached_property / lru_cache) on Record, Reference or Converter objects unless _index empties the cache unconditionally: a remembered standardisation answer (in particular \"unknown\") outlives add_prefix / add_record", floor=3)
def x3(cx: Cx, ob: Ob) -> None:
    from ..rules import cached_derivations

    cached_derivations(cx, ob)
