"""C01 - URI compression always picks the longest registered URI prefix."""

from __future__ import annotations

from ..model import AnalysisError
from ..report import Cx, Ob, describe, obligation
from ..rules import (
    CONV,
    TABLES,
    URI_SIDE,
    Prov,
    component,
    constructor_tables,
    flag_values,
    index_method_entries,
    inline_methods,
    reftuple_args,
    other_kind_call,
    self_call,
    state_closure,
    where,
)
from ..summ import describe_path
from ..terms import NONE, callee_name, concat_parts, contains, is_const, op, show, subterms

describe(
    "C01",
    "other",
    "Structural necessary conditions of longest-prefix compression decided on every path of the code: "
    "index-table roles of reverse_prefix_map/trie on the constructor path and in _index (IDX), the trie query is a "
    "longest-prefix API on the raw argument (LOOKUP), the identifier is exactly the input minus the matched key (FLOW), "
    "compress/is_uri/format_curie wrapper contracts (WRAP), index writes depend only on the record indexed (order independence), "
    "and no converter state exists that _index does not maintain.",
    ["CPython ast", "pytrie.StringTrie.longest_prefix_item returns (key, value) of the longest key that is a prefix", "str slicing semantics"],
    ["records are unique per C04 so keyed stores commute"],
    ["the for-all-strings equality itself", "correctness of pytrie's search"],
)

LONGEST = {"longest_prefix_item": "item", "longest_prefix": "key", "longest_prefix_value": "value"}


def check_table_roles(cx: Cx, ob: Ob, tables_wanted: list[str]) -> None:
    ctor = constructor_tables(cx, ob.id)
    idx = index_method_entries(cx, cx.fn(f"{CONV}._index", ob.id), ob.id)
    ixfn = cx.fn(f"{CONV}._index", ob.id)
    import ast as _ast

    rec_params = [p.name for p in ixfn.params if p.annotation is not None and "Record" in _ast.unparse(p.annotation)]
    two_records = len(rec_params) > 1
    if two_records:
        ob.undecide(f"_index takes two records ({', '.join(rec_params)}): which of them the keys and which the values must come from depends on what its call sites pass, which this rule does not relate")
    # writes into the lookup tables that add_record makes itself, next to _index: key and value must come from
    # ONE record (a value of the incoming record stored under a name of the existing one is a value that no
    # record of the converter carries - the tables and the records part ways)
    arf = cx.model.functions.get(f"{CONV}.add_record")
    if arf is not None:
        for table, ents in index_method_entries(cx, arf, ob.id).items():
            if table not in tables_wanted:
                continue
            for e in ents:
                vrec = e.value[1] if op(e.value) == "attr" else None
                if e.record is not None and vrec is not None and vrec != e.record:
                    ob.violate(e.fn, e.site, f"add_record writes {table}[<name of `{show(e.record)[:30]}`>] = `{show(e.value)[:40]}`, a value of another record: the table then holds something no record of the converter carries (a converter built from the same records answers differently)", detail=f"{table}:cross-record")
    # ... and in add_prefix: an entry keyed by something that is not a name of a record (a computed spelling) is a name
    # the tables know and no record lists - queries answer from it, the records (and every converter built from
    # them, and expand_all / get_record that read them) do not
    for qn in ("add_prefix", "add_record"):
        apf = cx.model.functions.get(f"{CONV}.{qn}")
        if apf is None:
            continue
        for table, ents in index_method_entries(cx, apf, ob.id).items():
            if table not in tables_wanted:
                continue
            for e in ents:
                if e.key_unknown and not e.key_fields:
                    ob.violate(e.fn, e.site, f"{qn} enters `{show(e.key)[:50]}` into {table} itself: a key that is not a name of the record being added, so the table recognises a string that no record lists (a converter rebuilt from the same records, expand_all and get_record do not know it)", witness="add_prefix then compress of a URI under the extra key succeeds; Converter(c.records) says None", detail=f"{table}:foreign-key")
    for table in tables_wanted:
        key_fields, value_field = TABLES[table]
        for origin, entries in (("constructor", ctor.get(table)), ("_index", idx.get(table))):
            if not entries:
                ob.violate(f"{CONV}.{'__init__' if origin == 'constructor' else '_index'}", "src/curies/api.py", f"{origin} path never writes table `{table}`", detail=f"missing-table:{table}")
                continue
            for e in entries:
                ob.site(e.site, f"{origin}: {table}[{'|'.join(sorted(e.key_fields)) or '?'}] = {e.value_field or show(e.value)[:40]}")
                if e.key_unknown and not e.key_fields:
                    other = idx.get(table) if origin == "constructor" else ctor.get(table)
                    if other and not any(o.key_unknown and not o.key_fields for o in other) and getattr(e, "key", None) is not None and not (op(e.key) == "call" and op(e.key[1]) == "attr" and e.key[1][2] in ("casefold", "lower", "upper", "strip", "title", "capitalize", "swapcase")):
                        # sibling agreement: one of the two ways of building the table enters a computed spelling
                        # the other never does - built at once and built step by step, the converter differs
                        ob.violate(
                            e.fn,
                            e.site,
                            f"{origin} enters `{show(e.key)[:50]}` (not a name of any record) into {table}, which {'_index' if origin == 'constructor' else 'the constructor'} never does: a converter that got a record through add_record / add_prefix and one constructed from the same records recognise different strings",
                            witness="Converter([r]) vs Converter([]) + add_record(r): compress of the extra spelling succeeds in one and not in the other",
                            detail=f"{table}:{'ctor' if origin == 'constructor' else 'index'}-only-entry",
                        )
                        continue
                    k_ = e.key
                    if op(k_) == "call" and op(k_[1]) == "attr" and k_[1][2] in ("casefold", "lower", "upper", "strip", "title", "capitalize", "swapcase") and not k_[2]:
                        from ..rules import Prov as _Pv

                        ob.violate(
                            e.fn,
                            e.site,
                            f"{table} gets an entry under `{show(k_)[:50]}`, a transformed spelling that no record lists: lookups succeed for names that are neither a canonical value nor a synonym of any record",
                            witness="after add_prefix('CHEBI', ..., case_sensitive=False): standardize_prefix('chebi') == 'CHEBI' although no record lists 'chebi'",
                            detail=f"{table}:key-transformed",
                        )
                        continue
                    ob.undecide(f"key of write to {table} at {e.site} not recognised")
                    continue
                if not e.key_fields <= key_fields:
                    ob.violate(e.fn, e.site, f"{table} is keyed by {sorted(e.key_fields)}; the property needs keys from {sorted(key_fields)}", detail=f"{table}:key-role:{'+'.join(sorted(e.key_fields))}")
                if e.value_field != value_field:
                    ob.violate(e.fn, e.site, f"{table}[{'|'.join(sorted(e.key_fields))}] stores `{show(e.value)[:60]}`; the property needs the record's `{value_field}`", detail=f"{table}:value-role:{'+'.join(sorted(e.key_fields))}")
                elif e.record is not None:
                    from ..rules import Prov as _P

                    vrec = e.value[1] if op(e.value) == "attr" else None
                    if vrec is not None and vrec != e.record and not (two_records and origin == "_index"):
                        ob.violate(e.fn, e.site, f"{table}: key and value come from different records", detail=f"{table}:cross-record")
            if table == "pattern_map" and origin == "_index":
                # patterns are optional: the constructor enters a record only when it HAS a pattern; the indexer must
                # make the same selection, or converters built incrementally carry `prefix -> None` entries
                cent = ctor.get(table) or []
                def _selects(conds) -> bool:
                    return any(pol is True and isinstance(c, tuple) and any(op(x) == "attr" and x[2] == "pattern" for x in subterms(c)) for c, pol in conds)

                ctor_sel = any(_selects(e0.conditions) for e0 in cent)
                ixs_ = cx.summary(ixfn, ob.id)

                def _selects_on_every_path(line) -> bool:
                    # must-guards are the intersection over paths; here the same test may be spelled with another
                    # record term on each path (record / into): ask every path that reaches the write
                    hits = [ctx_ for ev_, ctx_ in ixs_.walk() if ev_.line == line and ev_.kind in ("store", "expr") and any(op(x) == "attr" and x[2] == "pattern_map" for x in subterms(ev_.a))]
                    # an update with an EMPTY key list (the other arm of `[prefix] if has_pattern else []`) writes nothing
                    hits = [c_ for c_ in hits if not any(g.kind == "guard" and g.b is False and any(op(x) == "attr" and x[2] == "pattern" for x in subterms(g.a)) for g in c_.guards)]
                    return bool(hits) and all(_selects([(g.a, g.b) for g in ctx_.guards if g.kind == "guard"]) for ctx_ in hits)

                for e in entries:
                    sel = _selects(e.conditions) or _selects_on_every_path(e.line)
                    if ctor_sel and not sel:
                        ob.violate(e.fn, e.site, "_index enters the record into pattern_map whether or not it has a pattern (the constructor enters only records with one): after add_record / add_prefix of a record without pattern, pattern_map holds `prefix -> None`, which a converter built from the same records does not", detail="pattern_map:unselected")
            for f in sorted(key_fields):
                good = [e for e in entries if f in e.key_fields and e.value_field == value_field]
                if not good:
                    ob.violate(
                        f"{CONV}.{'__init__' if origin == 'constructor' else '_index'}",
                        entries[0].site,
                        f"{origin} path does not enter `{f}` into `{table}`",
                        witness=f"writes found: {[sorted(e.key_fields) for e in entries]}",
                        detail=f"{table}:uncovered:{f}",
                    )
                    continue
                uncond = [e for e in good if not _restricting(e.conditions, table)]
                if not uncond:
                    c = good[0].conditions[0]
                    if op(c[0]) == "partial":
                        ob.violate(
                            good[0].fn,
                            good[0].site,
                            f"only the slice `{show(c[0][1])[:50]}` of `{f}` enters `{table}`: entries outside the slice (e.g. synonyms that sort before the already indexed ones after a merge re-sorts the list) never reach the table",
                            detail=f"{table}:partial:{f}",
                        )
                        continue
                    if isinstance(c[0], tuple) and c[0][:1] == ("bypass",):
                        ob.violate(
                            good[0].fn,
                            good[0].site,
                            f"`{f}` does not enter `{table}` on every call: an earlier `return` (line {', '.join(map(str, c[0][1]))}) leaves the function before this statement",
                            detail=f"{table}:conditional:{f}",
                        )
                        continue
                    flags_ = [x[2] for x in subterms(c[0]) if op(x) == "attr" and op(x[1]) == "param" and isinstance(x[2], str) and x[2].startswith("_")] if isinstance(c[0], tuple) else []
                    if flags_:
                        verdict = suspension_protocol(cx, ob, flags_[0], table)
                        if verdict == "ok":
                            ob.site(good[0].site, f"`{f}` enters `{table}` unless maintenance is suspended through self.{flags_[0]}; every function that suspends it rebuilds the table and lifts the suspension")
                            continue
                        if verdict == "undecided":
                            ob.undecide(f"maintenance of `{table}` is suspended while self.{flags_[0]} is set: that whoever sets it rebuilds the table and resets the flag on every way out was not established")
                            continue
                        if verdict == "violated":
                            continue  # reported at the function that sets the flag
                    ob.violate(
                        good[0].fn,
                        good[0].site,
                        f"`{f}` enters `{table}` only under condition `{'' if c[1] else 'not '}{show(c[0])}`; falsy values such as the empty string are legitimate",
                        detail=f"{table}:conditional:{f}",
                    )


def suspension_protocol(cx: Cx, ob: Ob, flag: str, table: str) -> str:
    """``_index`` leaves ``table`` alone while ``self.<flag>`` is set (a bulk operation that rebuilds the table once at
    its end).  PAIRING: the flag has a constant class-level default; every function that sets it to another value
    binds ``<obj>.<table>`` anew afterwards and sets the flag back to the default before every normal way out.
    'ok' / 'undecided' / 'violated' (reported here, at the setter)."""
    import ast as _ast

    ci = cx.model.cls(CONV, ob.id)
    dflt = ci.assigns.get(flag) or (ci.fields.get(flag) or (None, None))[1]
    if not isinstance(dflt, _ast.Constant):
        return "undecided"
    setters = []
    for fn in cx.model.functions.values():
        if any(isinstance(n, _ast.Attribute) and n.attr == flag and isinstance(n.ctx, _ast.Store) for n in _ast.walk(fn.node)):
            setters.append(fn)
    if not setters:
        return "undecided"
    verdict = "ok"
    for fn in setters:
        s = cx.summary(fn, ob.id, full=True)
        for p in s.paths:
            if p.out is not None and p.out[0] == "raise":
                continue
            state = None  # None: default; ("set", obj): suspended; rebuilt?
            rebuilt = False
            flat = []

            def walk(events):
                for e in events:
                    flat.append(e)
                    # loop bodies in between do not change the flag (checked below by scanning them too)
                    for q in (e.body or ()):
                        walk(q.events)

            walk(p.events)
            for e in flat:
                if e.kind == "store" and op(e.a) == "attr" and e.a[2] == flag:
                    if is_const(e.b, dflt.value):
                        if state is not None and not rebuilt:
                            ob.violate(fn.qualname, where(fn, e.line), f"{fn.name} lifts the suspension of `{table}` maintenance (self.{flag}) without having rebuilt `{table}`: what _index skipped in between is missing from it", detail=f"suspension-without-rebuild:{flag}")
                            verdict = "violated"
                        state = None
                    else:
                        state, rebuilt = ("set", e.a[1]), False
                elif e.kind == "store" and op(e.a) == "attr" and e.a[2] == table and state is not None and e.a[1] == state[1]:
                    rebuilt = True
            if state is not None:
                ob.violate(
                    fn.qualname,
                    fn.where,
                    f"{fn.name} sets {show(state[1])[:30]}.{flag} (which makes _index leave `{table}` alone) and returns without setting it back: every later add_record / add_prefix on that converter updates the records and the other tables but not `{table}` - compress / parse_uri / is_uri miss what was added",
                    witness="c = chain([a, b]); c.add_prefix('x', 'http://x/'): c.expand('x:1') works, c.compress('http://x/1') is None",
                    detail=f"suspension-not-lifted:{flag}",
                )
                verdict = "violated"
    return verdict


def _restricting(conds: tuple, table: str) -> bool:
    if table == "pattern_map":
        return False  # patterns are optional by definition
    return bool(conds)


@obligation("C01-D1", "IDX: reverse_prefix_map and trie map every URI prefix and URI-prefix synonym to the record's canonical prefix, unconditionally, on the constructor path and in _index", floor=4)
def d1(cx: Cx, ob: Ob) -> None:
    check_table_roles(cx, ob, ["reverse_prefix_map", "trie"])


@obligation("C01-D2", "LOOKUP: parse_uri queries the trie with a longest-prefix API on the unmodified uri; the only failure path is the KeyError handler", floor=1)
def d2(cx: Cx, ob: Ob) -> None:
    check_parse_uri_lookup(cx, ob)


def check_parse_uri_lookup(cx: Cx, ob: Ob) -> None:
    fn = cx.fn(f"{CONV}.parse_uri", ob.id)
    s = cx.summary(fn, ob.id)
    me = ("param", fn.self_name)
    queries = []
    for c, ev, ctx in s.calls():
        r = c[1][1] if op(c[1]) == "attr" else None
        if r == ("attr", me, "trie"):
            queries.append((c, ev, ctx))
    if not queries:
        # the longest-prefix search written out as a probe of the reverse table with leading substrings of the
        # argument (judged by the FLOW obligation: direction and completeness of the probe)
        rpm = ("attr", me, "reverse_prefix_map")
        probes = [(c, ev, ctx) for c, ev, ctx in s.calls("get") if op(c[1]) == "attr" and c[1][1] == rpm and c[2] and op(c[2][0]) == "slice" and c[2][0][1] == ("param", "uri") and ctx.loops]
        if probes:
            ob.site(f"{where(fn, probes[0][1].line)} {fn.qualname}", f"probe {show(probes[0][0])[:50]} in a loop over prefix lengths")
            return
        ob.undecide("no query of self.trie found in parse_uri (lookup goes through an unrecognised construct)")
        return
    for c, ev, ctx in queries:
        name = callee_name(c)
        ob.site(f"{where(fn, ev.line)} {fn.qualname}", f"self.trie.{name}(...)")
        if name not in LONGEST and not any(any(x == c for x in subterms(t_)) for t_, _ in s.returns()):
            continue  # consulted in a test only (how many keys share a prefix), not what the answer is taken from
        if name not in LONGEST:
            ob.violate(fn.qualname, where(fn, ev.line), f"trie queried with `{name}`, which is not a longest-prefix lookup", witness="nested URI prefixes: the shorter prefix would win", detail=f"api:{name}")
            continue
        extra = list(c[2][1:]) + [v_ for k_, v_ in c[3] if k_ == "default"]
        bad_kw = [k_ for k_, _ in c[3] if k_ != "default"]
        # pytrie: longest_prefix*(key, default) returns the default instead of raising KeyError
        null_default = lambda x: is_const(x, None) or (op(x) == "tuple" and len(x[1]) == 2 and all(is_const(y, None) for y in x[1]))  # noqa: E731
        if c[2][:1] == (("param", "uri"),) and not bad_kw and len(extra) == 1 and null_default(extra[0]):
            # the miss is the default: it must be told from a match by identity with None - the empty prefix and the
            # empty URI prefix are falsy, and both are answers of the trie
            from ..rules import truthiness_tests

            seen_ = set()
            for g, gctx in s.walk():
                if g.kind != "guard" or g.line in seen_:
                    continue
                for tt in truthiness_tests(g.a):
                    if any(x == c for x in subterms(tt)) and not (op(tt) == "call" and tt[1] == ("builtin", "isinstance")):
                        seen_.add(g.line)
                        ob.violate(
                            fn.qualname,
                            where(fn, g.line),
                            f"the trie is queried with a default and the answer is tested by truthiness (`{show(g.a)[:60]}`): a match whose canonical prefix is '' (rdflib's default namespace) or whose key is the empty URI prefix is falsy and is taken for a miss; use `is None`",
                            witness="Converter.from_prefix_map({'': 'http://example.org/'}).compress('http://example.org/x') is None",
                            detail="default-truthiness",
                        )
            continue
        if c[2][:1] != (("param", "uri"),) or bad_kw or len(extra) > 1 or any(not is_const(x, None) for x in extra):
            ob.violate(fn.qualname, where(fn, ev.line), f"trie queried with `{show(c[2][0]) if c[2] else '?'}` instead of the raw `uri` argument", detail="query-arg")
    # failure paths: every non-success outcome must sit under an except handler catching KeyError
    # (unless the query is given a default, in which case pytrie does not raise)
    has_default = any(len(c[2]) > 1 or c[3] for c, _, _ in queries)
    for o, ctx in s.outcomes():
        if has_default:
            break
        if o is None:
            continue
        handlers = [g for g in ctx.guards if g.kind == "except"]
        if o[0] == "raise" and len(o) > 3 and o[3]:
            # raised inside the `try` and caught by its own KeyError handler: control continues in the failure
            # tail, exactly as when the trie itself raises
            rn = callee_name(o[1]) if op(o[1]) == "call" else (o[1][1].rsplit(".", 1)[-1] if op(o[1]) in ("builtin", "cls", "name") else None)
            if rn is not None and any(rn == n.split(".")[-1] or cx.model.is_subclass(rn, n.split(".")[-1]) for names in o[3] for n in names):
                # ... but only BEFORE the trie has answered, or because the identifier hook rejects the remainder
                # (as parse_curie does): a match thrown away on a test of the match itself loses a registered URI
                trie_q = [c_ for c_, _, _ in queries]
                after = [g for g in ctx.guards if g.kind == "guard" and any(x in trie_q for x in subterms(g.a))]
                bad_after = [g for g in after if not any(op(x) == "call" and callee_name(x) == "standardize_identifier" for x in subterms(g.a))]
                # before the trie is asked: giving up BECAUSE the URI is a key of one of the URI tables throws away
                # exactly the URIs the trie would match whole (the bare URI prefix, identifier '')
                me_ = ("param", fn.self_name)
                for g in ctx.guards:
                    if g.kind == "guard" and g not in after and op(g.a) == "cmp" and g.a[2] == ("param", "uri") and ((g.a[1] == "in" and g.b is True) or (g.a[1] == "not in" and g.b is False)) and op(g.a[3]) == "attr" and g.a[3][1] == me_ and g.a[3][2] in ("reverse_prefix_map", "trie"):
                        ob.violate(
                            fn.qualname,
                            where(fn, o[2]),
                            f"parse_uri gives up without asking the trie when `{show(g.a)[:60]}`: a URI that IS a registered URI prefix has that prefix as its longest match (identifier ''), and is now reported as not convertible",
                            witness="parse_uri('<a registered URI prefix>') was ReferenceTuple(prefix, ''), now (None, None); compress / is_uri / standardize_uri follow",
                            detail="failure-on-registered-prefix",
                        )
                if bad_after:
                    g0 = bad_after[-1]
                    ob.violate(
                        fn.qualname,
                        where(fn, o[2]),
                        f"parse_uri throws away a match of the trie when `{'' if g0.b else 'not '}{show(g0.a)[:70]}`: a URI under a registered prefix is reported as not convertible",
                        witness="e.g. the bare URI prefix itself, or any other condition on the matched key",
                        detail="failure-after-match",
                    )
                continue
        if o[0] == "raise" or (o[0] == "return" and (is_const(o[1], None) or o[1] == ("tuple", (NONE, NONE)))):
            if not handlers:
                ob.violate(fn.qualname, where(fn, o[2]), "parse_uri reports failure outside the trie's KeyError handler", witness=describe_path(ctx), detail="failure-outside-handler")
            elif not any(cx.model.is_subclass("KeyError", n.split(".")[-1]) for h in handlers for n in h.a):
                ob.violate(fn.qualname, where(fn, o[2]), f"handler catches {handlers[0].a}, which does not include KeyError", detail="handler-class")


@obligation("C01-D3", "FLOW: the identifier returned by parse_uri is the input with exactly the matched key removed from the front; the prefix is the trie value", floor=1)
def d3(cx: Cx, ob: Ob) -> None:
    check_remainder(cx, ob)


def check_remainder(cx: Cx, ob: Ob) -> None:
    fn = cx.fn(f"{CONV}.parse_uri", ob.id)
    s = cx.summary(fn, ob.id)
    me = ("param", fn.self_name)
    uri = ("param", "uri")
    for t, ctx in s.returns():
        if is_const(t, None) or t == ("tuple", (NONE, NONE)):
            continue
        pa = reftuple_args(t)
        if pa is None:
            ob.undecide(f"success return of parse_uri not recognised: {show(t)[:80]}")
            continue
        P, I = pa
        line = ctx.path.out[2]
        ob.site(f"{where(fn, line)} {fn.qualname}", f"return ({show(P)[:40]}, {show(I)[:50]})")
        q = [c for c in subterms(t) if op(c) == "call" and op(c[1]) == "attr" and c[1][1] == ("attr", me, "trie")]
        if not q:
            # a direct table hit: reverse_prefix_map[K] / .get(K) for a key K cut out of the URI.  K is then A
            # registered prefix of the URI, the longest one only if no longer key extends K - which the path must
            # have established (exactly one trie key starts with K / no subtrie below K)
            rpm = ("attr", me, "reverse_prefix_map")
            K = P[2] if op(P) == "item" and P[1] == rpm else (P[2][0] if op(P) == "call" and callee_name(P) == "get" and op(P[1]) == "attr" and P[1][1] == rpm and P[2] else None)
            if K is not None and any(x == uri for x in subterms(K)) and ctx.loops and any(op(x) == "bv" for x in subterms(K)):
                # probing with one leading substring after the other: the first hit is the longest registered
                # prefix iff the substrings get shorter (range(len(uri), .., -1))
                lp_ = ctx.loops[-1]
                rng = lp_.b
                desc = op(rng) == "call" and rng[1] == ("builtin", "range") and len(rng[2]) == 3 and is_const(rng[2][2], -1) and rng[2][0] == ("call", ("builtin", "len"), (uri,), ())
                asc = op(rng) == "call" and rng[1] == ("builtin", "range") and (len(rng[2]) < 3 or (is_const(rng[2][2]) and isinstance(rng[2][2][1], int) and rng[2][2][1] > 0))
                if desc and op(K) == "slice" and K[1] == uri and K[3] == lp_.a and is_const(K[2], None):
                    ob.site(f"{where(fn, line)} {fn.qualname}", "probe of reverse_prefix_map with ever shorter leading substrings: first hit = longest prefix")
                    if not (op(I) == "slice" and I[1] == uri and I[2] == lp_.a and is_const(I[3], None)):
                        ob.violate(fn.qualname, where(fn, line), f"identifier `{show(I)[:50]}` is not the rest of the URI after the probed prefix", detail="remainder")
                elif op(rng) == "call" and rng[1] == ("builtin", "range") and len(rng[2]) == 3 and is_const(rng[2][2], -1) and op(rng[2][0]) == "bin" and rng[2][0][1] == "-" and rng[2][0][2] == ("call", ("builtin", "len"), (uri,), ()) and is_const(rng[2][0][3]) and isinstance(rng[2][0][3][1], int) and rng[2][0][3][1] > 0:
                    ob.violate(fn.qualname, where(fn, line), f"parse_uri probes the leading substrings from length len(uri) - {rng[2][0][3][1]} downwards: the whole string is never tried, so a URI that IS a registered URI prefix (empty identifier) falls to a shorter prefix or to None", witness="compress('http://purl.obolibrary.org/obo/GO_') with that URI prefix registered", detail="not-longest")
                elif asc:
                    ob.violate(fn.qualname, where(fn, line), "parse_uri probes reverse_prefix_map with ever LONGER leading substrings and returns the first hit: the shortest registered prefix wins", witness="nested URI prefixes: the shorter prefix would win", detail="not-longest")
                else:
                    ob.undecide(f"parse_uri probes reverse_prefix_map with `{show(K)[:40]}` over `{show(rng)[:40]}`: that the first hit is the longest prefix is not decided")
                continue
            if K is not None and K == uri:
                # the WHOLE argument is a key: no longer key can be a prefix of it, so the hit is the longest match
                ob.site(f"{where(fn, line)} {fn.qualname}", "direct hit of the whole URI in reverse_prefix_map (nothing longer can be a prefix of it)")
                if not (is_const(I, "") or (op(I) == "slice" and I[1] == uri and I[2] == ("call", ("builtin", "len"), (uri,), ()) and is_const(I[3], None))):
                    ob.undecide(f"parse_uri answers a whole-URI hit with the identifier `{show(I)[:40]}` (expected '')")
                continue
            if K is not None and any(x == uri for x in subterms(K)):
                from ..rules import guard_atoms

                atoms = guard_atoms(ctx.guards)
                keys_call = ("call", ("attr", ("attr", me, "trie"), "keys"), (K,), ())
                lenk = ("call", ("builtin", "len"), (keys_call,), ())
                unique = any((a == ("cmp", "==", lenk, ("const", 1)) and pol is True) or (op(a) == "call" and callee_name(a) in ("has_subtrie",) and a[2] == (K,) and pol is False) for a, pol in atoms)
                if unique:
                    ob.site(f"{where(fn, line)} {fn.qualname}", "direct table hit, taken only when no longer key extends it")
                else:
                    ob.violate(
                        fn.qualname,
                        where(fn, line),
                        f"parse_uri answers from a direct hit of `{show(K)[:50]}` in reverse_prefix_map without excluding a longer registered URI prefix that extends it: the hit is a matching prefix, not necessarily the longest",
                        witness="'http://example.org/onto#' (A) and 'http://example.org/onto#GO_' (B): 'http://example.org/onto#GO_1' must compress with B",
                        detail="not-longest",
                    )
                continue
            ob.undecide("success return does not derive from a trie query")
            continue
        Q = q[0]
        kind = LONGEST.get(callee_name(Q))
        if kind == "item":
            key, val = ("item", Q, ("const", 0)), ("item", Q, ("const", 1))
        elif kind == "key":
            key, val = Q, None
        else:
            ob.undecide(f"trie API {callee_name(Q)} does not yield the matched key")
            continue
        # prefix
        if val is not None and P != val:
            if P == key:
                ob.violate(fn.qualname, where(fn, line), "parse_uri returns the matched URI prefix (trie key) where the CURIE prefix (trie value) belongs", detail="prefix-is-key")
            else:
                ob.violate(fn.qualname, where(fn, line), f"prefix returned is `{show(P)[:60]}`, not the value stored in the trie for the matched key", detail="prefix-role")
        if val is None:
            ok = P in (("item", ("attr", me, "reverse_prefix_map"), key), ("item", ("attr", me, "trie"), key))
            if not ok:
                ob.violate(fn.qualname, where(fn, line), f"prefix returned is `{show(P)[:60]}`, not the owner of the matched key", detail="prefix-role")
        # identifier
        verdict, msg = remainder_verdict(I, uri, key)
        if verdict == "bad":
            ob.violate(fn.qualname, where(fn, line), msg, witness=f"identifier term: {show(I)[:100]}", detail="remainder")
        elif verdict == "unknown":
            ob.undecide(msg)


def remainder_verdict(I, uri, key):
    lenkey = ("call", ("builtin", "len"), (key,), ())
    if op(I) == "call" and op(I[1]) == "attr" and I[1][2] == "standardize_identifier" and len(I[2]) == 2:
        I = I[2][1]  # the identifier hook (identity unless a subclass says otherwise: X14)
    if op(I) == "slice" and I[1] == uri:
        lo, hi, step = I[2], I[3], I[4]
        if not is_const(hi, None) or not is_const(step, None):
            return "bad", "identifier slice has an upper bound or a step: characters of the remainder are lost"
        if lo == lenkey:
            return "ok", ""
        off = _offset(lo, lenkey)
        if off is not None:
            return "bad", f"identifier starts at len(matched)+({off}) instead of len(matched)"
        if is_const(lo):
            return "bad", f"identifier starts at constant offset {lo[1]!r}, independent of the matched prefix"
        return "unknown", f"slice lower bound `{show(lo)}` not recognised"
    if op(I) == "call" and op(I[1]) == "attr" and I[1][1] == uri:
        m = I[1][2]
        if m == "removeprefix" and I[2] == (key,):
            return "ok", ""
        wrong = {
            "replace": "str.replace removes every occurrence of the matched prefix, not only the leading one",
            "lstrip": "str.lstrip strips a character set, not a prefix",
            "strip": "str.strip strips a character set, not a prefix",
            "split": "str.split fails on the empty URI prefix and splits at later occurrences",
            "partition": "str.partition fails on the empty URI prefix",
            "rpartition": "str.rpartition cuts at the last occurrence of the matched prefix",
            "rsplit": "str.rsplit cuts at the last occurrence of the matched prefix",
            "removesuffix": "removes a suffix",
        }
        if m in wrong:
            return "bad", f"identifier computed with uri.{m}(...): {wrong[m]}"
    if op(I) == "item" and op(I[1]) == "call" and op(I[1][1]) == "attr" and I[1][1][1] == uri:
        m = I[1][1][2]
        if m in ("split", "partition", "rpartition", "rsplit"):
            return "bad", f"identifier computed with uri.{m}(...)[..]: fails for the empty URI prefix or cuts at another occurrence"
    if I == uri:
        return "bad", "identifier is the whole input"
    return "unknown", f"identifier expression `{show(I)[:80]}` not recognised"


def _offset(lo, lenkey):
    if op(lo) == "bin" and lo[1] in ("+", "-"):
        a, b = lo[2], lo[3]
        if a == lenkey and is_const(b) and isinstance(b[1], int):
            return b[1] if lo[1] == "+" else -b[1]
        if b == lenkey and is_const(a) and isinstance(a[1], int) and lo[1] == "+":
            return a[1]
    return None


def curie_join_check(cx: Cx, ob: Ob, fn_name: str, base_pred, base_desc: str, nonempty_identifier_only: bool = False, alnum_identifiers: bool = False) -> None:
    """Success return of ``fn_name`` is prefix + self.delimiter + identifier of ``base``."""
    fn = cx.fn(f"{CONV}.{fn_name}", ob.id)
    s = cx.summary(fn, ob.id)
    me = ("param", fn.self_name)
    n = 0
    for t, ctx in s.returns():
        if is_const(t, None) or op(t) == "param":
            continue
        # a branch for arguments that are NOT strings (a pre-parsed reference, ..): new surface next to the documented
        # calls, which pass a str and never take it
        arg0 = ("param", fn.params[1].name) if len(fn.params) > 1 else None
        if arg0 is not None and any(
            g.kind == "guard" and g.b is True and op(g.a) == "call" and g.a[1] == ("builtin", "isinstance") and g.a[2][:1] == (arg0,) and len(g.a[2]) == 2
            and not any(show(y).rsplit(".", 1)[-1] in ("str", "object") for y in (g.a[2][1][1] if op(g.a[2][1]) == "tuple" else (g.a[2][1],)))
            for g in ctx.guards
        ):
            ob.site(f"{where(fn, ctx.path.out[2])} {fn.qualname}", "branch for non-string arguments (not a documented call)")
            continue
        line = ctx.path.out[2]
        t2 = inline_methods(cx, t, me, CONV, {"format_curie"})
        parts = concat_parts(t2)
        n += 1
        ob.site(f"{where(fn, line)} {fn.qualname}", f"return {show(t)[:70]}")
        if parts is None or len(parts) != 3:
            ob.undecide(f"{fn_name}: success return `{show(t)[:80]}` is not a 3-part join")
            continue
        a, d, b = parts
        if is_const(d):
            ob.violate(fn.qualname, where(fn, line), f"{fn_name} joins prefix and identifier with the literal {d[1]!r} instead of the converter's delimiter", witness="a converter built with delimiter='/' produces CURIEs it cannot parse back", detail="literal-delimiter")
        elif d != ("attr", me, "delimiter"):
            ob.violate(fn.qualname, where(fn, line), f"{fn_name} joins with `{show(d)}`, not self.delimiter", detail="delimiter")
        ca, cb = component(a), component(b)
        if ca is None or cb is None or ca[1] != 0 or cb[1] != 1 or ca[0] != cb[0]:
            # parse_curie written out in place: standardize_prefix(head) and standardize_identifier(.., tail) of
            # the argument cut at the first self.delimiter
            verdict = _direct_curie_parse(a, b, me, ("param", fn.params[1].name))
            if verdict == "ok":
                ob.site(f"{where(fn, line)} {fn.qualname}", "parse written out in place (first-delimiter partition, standardised prefix)")
                continue
            if verdict == "last-occurrence":
                ob.violate(fn.qualname, where(fn, line), f"{fn_name} cuts its argument at the LAST delimiter while parse_curie / expand cut at the first: CURIEs whose identifier contains the delimiter are not standardised", witness="standardize_curie('go:GO:0032571') is None although expand resolves prefix 'go'", detail="last-occurrence")
                continue
            if alnum_identifiers and ca is not None and ca[1] == 0 and any(op(x) == "attr" and x[1] == ca[0] and x[2] == "identifier" for x in subterms(b)):
                # prefix intact, identifier put through a transformation: success and failure are as before, and the
                # caller's property speaks of alphanumeric identifiers only - whether THOSE are changed is a
                # question about the transformation
                ob.undecide(f"{fn_name} joins the prefix with `{show(b)[:60]}`, a transformed identifier: whether alphanumeric identifiers come through unchanged is not decided")
                continue
            ob.violate(fn.qualname, where(fn, line), f"{fn_name} does not join (prefix, identifier) of one parsed reference: `{show(a)[:40]}` / `{show(b)[:40]}`", detail="components")
            continue
        if not base_pred(ca[0], me):
            if _strict_parse_in_handler(cx, ctx, ca[0], me):
                ob.site(f"{where(fn, line)} {fn.qualname}", "strict parse inside a try that turns every library error into the failure tail")
            else:
                ob.violate(fn.qualname, where(fn, line), f"{fn_name} formats `{show(ca[0])[:70]}`; expected {base_desc}", detail="base")
                continue
        success_conditions(ob, fn, ctx, ca[0], line, nonempty_identifier_only)
    if n == 0:
        ob.undecide(f"{fn_name} has no success return")
    failure_needs_lookup(cx, ob, fn, s, me, "curie" if fn_name == "standardize_curie" else "uri" if fn_name == "compress" else "both")


def failure_needs_lookup(cx: Cx, ob: Ob, fn, s, me, side: str) -> None:
    """The failure tail (None / False / echo / raise) is reached only after the lookup has been asked: a path that
    gives up on the strength of a test of the ARGUMENT alone answers "not convertible" for strings the tables may
    well know.  Sound shortcuts are enumerated: ``arg is None``; on the URI side "no registered URI prefix is a
    prefix of the argument" (``arg.startswith(tuple(<full reverse table>))``); on the CURIE side "the delimiter
    does not occur in the argument" (a CURIE has one: C02-D1)."""
    from ..rules import _strip_views, guard_atoms

    fn_name = fn.name
    arg = ("param", fn.params[1].name)
    dl = ("attr", me, "delimiter")

    def asks(t) -> bool:
        # a method of the converter applied to (a piece of) the argument, or one of the lookup tables consulted
        if not isinstance(t, tuple):
            return False
        for x in subterms(t):
            if self_call(x, me) and any(y == arg for a_ in x[2] for y in subterms(a_)):
                return True
            if op(x) == "attr" and x[1] == me and x[2] in ("prefix_map", "synonym_to_prefix", "reverse_prefix_map", "trie", "records"):
                return True
        return False

    def no_delimiter(a0, pol0) -> bool:
        if a0 == ("cmp", "in", dl, arg):
            return pol0 is False
        if op(a0) == "item" and is_const(a0[2], 1) and op(a0[1]) == "call" and op(a0[1][1]) == "attr" and a0[1][1][1] == arg and a0[1][1][2] in ("partition", "rpartition") and a0[1][2] == (dl,):
            return pol0 is False
        find = ("call", ("attr", arg, "find"), (dl,), ())
        if op(a0) == "cmp" and a0[2] == find and is_const(a0[3]) and isinstance(a0[3][1], int):
            k = a0[3][1]
            # the test holds exactly for "not found" (-1): find < 0, find == -1, not (find >= 0), not (find > -1), not (find != -1)
            return (a0[1], k, pol0) in (("<", 0, True), ("==", -1, True), (">=", 0, False), (">", -1, False), ("<=", -1, True))
        return False

    seen_lines = set()
    for p in s.paths:
        o = p.out
        if o is not None and o[0] == "return" and not (is_const(o[1], None) or is_const(o[1], False) or o[1] == arg or o[1] == ("tuple", (NONE, NONE))):
            continue
        if any(asks(t) for ev in p.events for t in (ev.a, ev.b)) or (o is not None and len(o) > 1 and asks(o[1]) and o[0] == "return"):
            continue
        if any(ev.kind == "except" for ev in p.events):
            continue  # the failure is what a `try` body (the lookup) raised
        atoms = guard_atoms([g for g in p.events if g.kind == "guard"])
        if any(a == ("cmp", "is", arg, NONE) and pol is True for a, pol in atoms):
            continue  # None is not a string: nothing to look up
        pre = [(a, pol) for a, pol in atoms if any(x == arg for x in subterms(a))]
        if not pre:
            continue
        a0, pol0 = pre[-1]
        if side in ("uri",) and pol0 is False and op(a0) == "call" and op(a0[1]) == "attr" and a0[1][1] == arg and a0[1][2] == "startswith" and len(a0[2]) == 1:
            tab = _strip_views(a0[2][0])
            while op(tab) == "call" and callee_name(tab) == "keys" and op(tab[1]) == "attr":
                tab = tab[1][1]
            if tab in (("attr", me, "reverse_prefix_map"), ("attr", me, "trie")):
                ob.site(f"{fn.where} {fn.qualname}", "pre-check: no registered URI prefix is a prefix of the argument")
                continue
        if side == "curie" and no_delimiter(a0, pol0):
            ob.site(f"{fn.where} {fn.qualname}", "pre-check: no delimiter in the argument")
            continue
        line = o[2] if o is not None and len(o) > 2 else fn.node.lineno
        if line in seen_lines:
            continue
        seen_lines.add(line)
        ob.violate(
            fn.qualname,
            where(fn, line),
            f"{fn_name} gives up when `{'' if pol0 else 'not '}{show(a0)[:60]}` without asking the lookup tables: what is convertible is decided by the registered prefixes alone (the empty string, strings without ':' or '://', a delimiter at position 0 can all be registered)",
            witness="Converter with the URI prefix '' (or 'vocab/terms#', or the empty CURIE prefix ':x'): the table knows the string, the shortcut answers None",
            detail="failure-without-lookup",
        )


def _direct_curie_parse(a, b, me, arg):
    """a = self.standardize_prefix(P[0]), b = P[2] or self.standardize_identifier(a, P[2]) with P = arg.partition(self.delimiter)."""
    if not (op(a) == "call" and op(a[1]) == "attr" and a[1][1] == me and a[1][2] == "standardize_prefix" and a[2]):
        return None
    head = a[2][0]
    tail = b
    if op(b) == "call" and op(b[1]) == "attr" and b[1][1] == me and b[1][2] == "standardize_identifier" and len(b[2]) == 2:
        if b[2][0] != a:
            return None
        tail = b[2][1]
    if not (op(head) == "item" and op(tail) == "item" and head[1] == tail[1] and op(head[1]) == "call" and op(head[1][1]) == "attr" and head[1][1][1] == arg):
        return None
    P = head[1]
    m = P[1][2]
    if P[2][:1] != (("attr", me, "delimiter"),):
        return None
    if m in ("rpartition", "rsplit"):
        return "last-occurrence"
    if m == "partition" and is_const(head[2], 0) and is_const(tail[2], 2):
        return "ok"
    if m == "split" and is_const(head[2], 0) and is_const(tail[2], 1) and ((len(P[2]) > 1 and is_const(P[2][1], 1)) or is_const(dict(P[3]).get("maxsplit"), 1)):
        return "ok"
    return None


def _strict_parse_in_handler(cx: Cx, ctx, base, me) -> bool:
    """base = self.parse_curie(x, strict=True) evaluated inside a ``try`` whose handlers catch the whole family of
    errors the strict parse can raise (standardisation errors AND the missing-delimiter error)."""
    if not (self_call(base, me, "parse_curie") and is_const(dict(base[3]).get("strict"), True)):
        return False
    for ev in ctx.trail:
        if ev.kind in ("bind", "expr") and (ev.b == base or ev.a == base) and ev.cov:
            caught = [n.split(".")[-1] for hs in ev.cov for n in hs]
            need = ("PrefixStandardizationError", "IdentifierStandardizationError", "NoCURIEDelimiterError")
            if all(any(n == h or cx.model.is_subclass(n, h) or h in ("Exception", "BaseException") for h in caught) for n in need):
                return True
    return False


def success_conditions(ob: Ob, fn, ctx, base, line, nonempty_identifier_only: bool = False) -> None:
    """On the success path the only test of the parsed result is whether it exists."""
    for g in ctx.guards:
        if g.kind != "guard":
            continue
        t = g.a
        if t == base:
            continue
        if nonempty_identifier_only and g.b and t == ("attr", base, "identifier"):
            # the caller's property speaks of non-empty identifiers only
            ob.site(f"{where(fn, line)} {fn.qualname}", "requires a non-empty identifier (outside this property's domain)")
            continue
        if nonempty_identifier_only and any(x == ("attr", base, "identifier") for x in subterms(t)) and not any(op(x) == "attr" and x[1] == base and x[2] != "identifier" for x in subterms(t)):
            # a test of the identifier alone: the caller's property speaks of alphanumeric identifiers only, and
            # whether those pass the test is a question about the test (a regular expression, a character class)
            ob.undecide(f"{fn.name} succeeds only if `{show(t)[:60]}`: whether alphanumeric identifiers pass is not decided")
            continue
        if op(t) == "cmp" and t[2] == base and is_const(t[3], None):
            continue
        inner = [x for x in subterms(t) if op(x) in ("attr", "item", "call") and len(x) > 1 and x[1] == base] + [x for x in subterms(t) if op(x) == "call" and base in x[2]]
        if inner:
            ob.violate(
                fn.qualname,
                where(fn, line),
                f"{fn.name} succeeds only if additionally `{'' if g.b else 'not '}{show(t)[:70]}`: inputs that parse are reported as failures",
                witness="e.g. an empty identifier (the bare URI prefix / the CURIE 'prefix:') parses but is then rejected",
                detail=f"extra-condition:{show(inner[0])[-30:]}",
            )


def format_curie_check(cx: Cx, ob: Ob) -> None:
    fn = cx.fn(f"{CONV}.format_curie", ob.id)
    s = cx.summary(fn, ob.id)
    me = ("param", fn.self_name)
    from ..summ import KNOWN_SIGNATURES
    import ast as _ast

    # a keyword the pinned signature did not have, with a constant default: the property speaks about calls that
    # leave it alone (callers that do pass it are judged where they pass it)
    sig = KNOWN_SIGNATURES.get(fn.qualname) or [p.name for p in fn.params]
    newp = {p.name: p.default.value for p in fn.params if p.name not in sig and isinstance(p.default, _ast.Constant)}
    for t, ctx in s.returns():
        if any(g.kind == "guard" and op(g.a) == "param" and g.a[1] in newp and bool(newp[g.a[1]]) != g.b for g in ctx.guards):
            continue
        parts = concat_parts(t)
        ob.site(fn, f"return {show(t)[:60]}")
        want = [("param", "prefix"), ("attr", me, "delimiter"), ("param", "identifier")]
        if parts is None and op(t) in ("param", "attr", "const"):
            ob.violate(fn.qualname, fn.where, f"format_curie returns `{show(t)[:60]}` on some path instead of prefix + self.delimiter + identifier: the result does not split back into (prefix, identifier)", witness="prefix '' and identifier 'GO:1234' print as 'GO:1234', which parses as prefix 'GO'", detail="template")
        elif parts is None:
            ob.undecide(f"format_curie returns `{show(t)[:60]}`")
        elif parts != want:
            if len(parts) == 3 and is_const(parts[1]):
                ob.violate(fn.qualname, fn.where, f"format_curie joins with the literal {parts[1][1]!r} instead of self.delimiter", detail="literal-delimiter")
            else:
                ob.violate(fn.qualname, fn.where, f"format_curie returns `{show(t)[:80]}`, not prefix + self.delimiter + identifier", detail="template")


def is_parse_uri_of(param: str):
    def pred(base, me):
        if not self_call(base, me, "parse_uri"):
            return False
        if base[2] != (("param", param),):
            return False
        kw = dict(base[3])
        return not is_const(kw.get("strict"), True)

    return pred


@obligation("C01-D4", "WRAP: compress = format_curie(prefix, identifier) of parse_uri(uri) on the unmodified argument; is_uri is a None-test of compress/parse_uri; format_curie joins with self.delimiter", floor=3)
def d4(cx: Cx, ob: Ob) -> None:
    curie_join_check(cx, ob, "compress", is_parse_uri_of("uri"), "self.parse_uri(uri, ...)")
    format_curie_check(cx, ob)
    is_uri_check(cx, ob)


def is_uri_check(cx: Cx, ob: Ob) -> None:
    fn = cx.fn(f"{CONV}.is_uri", ob.id)
    s = cx.summary(fn, ob.id)
    me = ("param", fn.self_name)
    arg = ("param", fn.params[1].name)
    failure_needs_lookup(cx, ob, fn, s, me, "uri")
    for t, ctx in s.returns():
        ob.site(fn, f"return {show(t)[:60]}")
        x = None
        if op(t) == "cmp" and t[1] in ("is not", "!=") and is_const(t[3], None):
            x = t[2]
        if x is None:
            trieq = [c for c in subterms(t) if op(c) == "call" and op(c[1]) == "attr" and c[1][1] == ("attr", me, "trie")]
            if op(t) == "call" and t[1] in (("builtin", "any"), ("builtin", "bool")) and trieq and callee_name(trieq[0]) in ("iter_prefixes", "iter_prefix_values", "longest_prefix", "longest_prefix_value", "keys", "values") and t[2] and t[2][0] == trieq[0]:
                ob.violate(
                    fn.qualname,
                    fn.where,
                    f"is_uri takes the truth value of the strings yielded by trie.{callee_name(trieq[0])}: an empty URI prefix (or the empty default CURIE prefix) is a match that counts as False",
                    witness="Converter([Record(prefix='x', uri_prefix='')]): compress('abc') == 'x:abc' but is_uri('abc') is False",
                    detail="truthiness-of-keys",
                )
            elif self_call(t, me) and t[1][2] not in ("compress", "parse_uri"):
                ob.funnel(fn.qualname, fn.where, f"is_uri is defined through `{show(t)[:60]}`, not through compress/parse_uri of its argument", any(self_call(y, me) and y[1][2] in ("compress", "parse_uri", "compress_strict") for r_, _ in s.returns() for y in subterms(r_)), "compress / parse_uri", wrong=other_kind_call(t, me, "uri"))
            elif op(t) == "call" and op(t[1]) == "attr" and t[1][1] == arg and t[1][2] == "startswith" and len(t[2]) == 1:
                # s.startswith(tuple(TABLE)): some registered URI prefix is a prefix of s - the same set of strings as
                # "the longest-prefix lookup succeeds" exactly when TABLE holds every URI prefix and synonym
                from ..rules import Prov, _strip_views

                tab = _strip_views(t[2][0])
                while op(tab) == "call" and callee_name(tab) == "keys" and op(tab[1]) == "attr":
                    tab = tab[1][1]
                if tab in (("attr", me, "reverse_prefix_map"), ("attr", me, "trie")):
                    ob.site(fn, "prefix test against the full reverse table")
                else:
                    prov = Prov(s)
                    prov.scan(t)
                    keys = None
                    if op(tab) == "comp" and tab[1] == "dict":
                        keys = prov.fields(tab[2][1])
                    elif op(tab) == "comp":
                        keys = prov.fields(tab[2])
                    if keys is None or any(r == "?" for r, _ in keys):
                        ob.undecide(f"is_uri tests the prefixes of `{show(tab)[:60]}`")
                    else:
                        missing = URI_SIDE - {f for _, f in keys}
                        if missing:
                            ob.violate(
                                fn.qualname,
                                fn.where,
                                f"is_uri tests only {sorted(f for _, f in keys)} as prefixes of its argument: URIs written with {sorted(missing)} are compressed by compress / parse_uri but is_uri says False",
                                witness="record GO with URI-prefix synonym 'https://identifiers.org/GO:': compress('https://identifiers.org/GO:1') == 'GO:1', is_uri(...) is False",
                                detail="is-uri-cover:" + "+".join(sorted(missing)),
                            )
            else:
                ob.undecide(f"is_uri returns `{show(t)[:70]}`, not a None-test")
            continue
        if self_call(x, me) and x[1][2] in ("compress", "parse_uri", "compress_strict") and x[2][:1] == (arg,):
            kw = dict(x[3])
            if is_const(kw.get("strict"), True) or x[1][2] == "compress_strict":
                ob.violate(fn.qualname, fn.where, "is_uri calls the strict variant and raises instead of answering False", detail="strict")
            if is_const(kw.get("passthrough"), True):
                ob.violate(fn.qualname, fn.where, "is_uri calls compress(passthrough=True), which never returns None", detail="passthrough")
            if x[1][2] == "parse_uri" and not is_const(kw.get("return_none"), True):
                ob.violate(fn.qualname, fn.where, "is_uri tests parse_uri(...) without return_none=True; the legacy (None, None) result is not None", detail="return-none")
        else:
            ob.funnel(fn.qualname, fn.where, f"is_uri is defined through `{show(x)[:60]}`, not through compress/parse_uri of its argument", any(self_call(y, me) and y[1][2] in ("compress", "parse_uri", "compress_strict") for r_, _ in s.returns() for y in subterms(r_)), "compress / parse_uri", wrong=other_kind_call(t, me, "uri"))


@obligation("C01-D5", "order independence: every write to reverse_prefix_map/trie is a keyed store whose key and value depend only on the record being indexed", floor=4)
def d5(cx: Cx, ob: Ob) -> None:
    ctor = constructor_tables(cx, ob.id)
    idx = index_method_entries(cx, cx.fn(f"{CONV}._index", ob.id), ob.id)
    for origin in (ctor, idx):
        for table in ("reverse_prefix_map", "trie"):
            for e in origin.get(table, []):
                ob.site(e.site, f"{table} write")
                reads = [x for x in subterms(e.value) if op(x) == "attr" and x[2] in TABLES]
                for c, _ in e.conditions:
                    reads += [x for x in subterms(c) if op(x) == "attr" and x[2] in TABLES]
                if reads:
                    ob.violate(e.fn, e.site, f"write to {table} depends on the current content of `{reads[0][2]}`, so the result depends on insertion order", detail=f"{table}:reads-table")


@obligation("C01-D6", "state closure: all derived converter state is maintained by _index and no query method writes converter state (no stale caches)", floor=5)
def d6(cx: Cx, ob: Ob) -> None:
    state_closure(cx, ob)



@obligation("C01-X1", "OWN (shared with C10): no function that takes a converter stores into, mutates or captures the Record objects of its input - a converter whose records are changed behind its back no longer matches its own lookup tables", floor=6)
def x1(cx: Cx, ob: Ob) -> None:
    from .c10 import check_no_aliasing

    check_no_aliasing(cx, ob)


@obligation("C01-X3", "no memoised derived values (cached_property / lru_cache) on Record, Reference or Converter objects, which are changed in place or copied with updates", floor=3)
def x3(cx: Cx, ob: Ob) -> None:
    from ..rules import cached_derivations

    cached_derivations(cx, ob)


@obligation("C01-X5", "pairing (shared with C05-D4): every normally returning path of add_record merges or appends and then unconditionally re-indexes the changed record, so the lookup tables never lag behind the records", floor=2)
def x5(cx: Cx, ob: Ob) -> None:
    from .c05 import check_add_record_pairing

    check_add_record_pairing(cx, ob)


@obligation("C01-X6", "LOOKUP None-discipline (shared with C02-D3): lookup results and str|None results are tested with `is None`, never by truthiness - the empty prefix, the empty URI prefix and the empty identifier are legitimate values", floor=40)
def x6(cx: Cx, ob: Ob) -> None:
    from ..rules import scan_none_discipline
    from .c02 import none_scope

    scan_none_discipline(cx, ob, none_scope(cx))


@obligation("C01-X8", "the Record model stores prefixes and URI prefixes verbatim: no pydantic string transformation (strip / case folding / length limits) in its model_config or field declarations", floor=1)
def x8(cx: Cx, ob: Ob) -> None:
    from ..rules import record_verbatim

    record_verbatim(cx, ob)


@obligation("C01-X10", "Converter.__init__ reads its (Iterable, possibly one-shot) `records` argument only through one materialising call (sorted/list) and keeps that fresh list - never the caller's list object, never sorted in place", floor=2)
def x10(cx: Cx, ob: Ob) -> None:
    from ..rules import constructor_owns_records

    constructor_owns_records(cx, ob)


@obligation("C01-X12", "def-use lints over the files this property is anchored in (api.py): no one-shot iterator (generator expression, map, filter, zip, iter, reversed, enumerate, generator call) bound to a name is consumed twice or inside a loop that starts after its creation; no mutable default argument is mutated, stored or returned; no binary search over a sequence that is not kept sorted; no container resized inside the loop that iterates it; no Iterable parameter consumed twice before it is materialised; itertools.groupby only over input sorted by the grouping key", floor=1)
def x12(cx: Cx, ob: Ob) -> None:
    from ..rules import package_lints

    package_lints(cx, ob, {'api.py'})


# ---------------------------------------------------------------------- trusted base, checked statically
def pytrie_semantics() -> dict:
    """Read the installed pytrie source (no import, no execution) and confirm the two facts the
    rules rely on: Trie.__init__ only forwards to update(), and longest_prefix_item returns the
    LAST valued node on the key's path (= the longest stored prefix) and raises KeyError when
    there is none and no default was given."""
    import ast
    import pathlib
    import sys

    out = {"found": False}
    cands = [pathlib.Path(p) / "pytrie.py" for p in sys.path if p] + list(pathlib.Path("/venv/lib").glob("python*/site-packages/pytrie.py"))
    src = next((p for p in cands if p.exists()), None)
    if src is None:
        return out
    out["found"] = True
    out["file"] = str(src)
    tree = ast.parse(src.read_text())
    trie = next((n for n in ast.walk(tree) if isinstance(n, ast.ClassDef) and n.name == "Trie"), None)
    if trie is None:
        out["error"] = "class Trie not found"
        return out
    meths = {n.name: n for n in trie.body if isinstance(n, ast.FunctionDef)}
    init = meths.get("__init__")
    body = [s for s in init.body if not (isinstance(s, ast.Expr) and isinstance(s.value, ast.Constant))] if init else []
    out["init_forwards_to_update"] = bool(init) and any(isinstance(s, ast.Expr) and isinstance(s.value, ast.Call) and ast.unparse(s.value.func) == "self.update" for s in body) and not any(isinstance(s, ast.For) for s in body)
    lp = meths.get("longest_prefix_item")
    if lp is None:
        out["error"] = "longest_prefix_item not found"
        return out
    loops = [n for n in lp.body if isinstance(n, ast.For)]
    walks_key = bool(loops) and "key" in ast.unparse(loops[0].iter)
    # inside the loop: the remembered value is overwritten whenever the current node carries one
    overwrites = any(isinstance(n, ast.Assign) and any(isinstance(t, ast.Name) and "longest" in t.id for t in n.targets) for l in loops for n in ast.walk(l))
    breaks_on_missing = any(isinstance(n, ast.Break) for l in loops for n in ast.walk(l))
    raises = [n for n in ast.walk(lp) if isinstance(n, ast.Raise) and n.exc is not None and "KeyError" in ast.unparse(n.exc)]
    out["longest_prefix_item"] = {"walks_key": walks_key, "keeps_last_valued_node": overwrites, "stops_at_first_missing_child": breaks_on_missing, "raises_KeyError": bool(raises)}
    out["ok"] = bool(out["init_forwards_to_update"] and walks_key and overwrites and breaks_on_missing and raises)
    return out


from ..report import thorough_extra  # noqa: E402


@thorough_extra("C01")
def validate_pytrie_table():
    r = pytrie_semantics()
    if not r.get("found"):
        print("trusted base: pytrie source not found; semantic table not cross-checked")
        return 0, {"trusted_base_check": r}
    if not r.get("ok"):
        print(f"ANALYSIS-ERROR property=C01 obligation=trusted-base reason=installed pytrie does not have the shape the rules assume: {r}")
        return 2, {"trusted_base_check": r}
    print(f"trusted base: installed pytrie ({r['file']}) has the assumed shape: __init__ -> update(); longest_prefix_item keeps the last valued node and raises KeyError")
    return 0, {"trusted_base_check": r}


@obligation("C01-X13", "records are copied and serialised whole: no model_dump(exclude_unset=True) / model_fields_set anywhere in the package (in-place merges do not update pydantic's fields_set)", floor=1)
def x13(cx: Cx, ob: Ob) -> None:
    from ..rules import no_fields_set_dependence

    no_fields_set_dependence(cx, ob)


@obligation("C01-X16", "incremental construction (shared with C05-D3/D5/D6): _match_record compares the full cover through _eq/_in, _merge adds names by exact membership, add_record rejects ambiguous records - otherwise converters built with add_record / chain own URI prefixes the supplied records do not give them", floor=8)
def x16(cx: Cx, ob: Ob) -> None:
    from .c05 import check_match_record, check_merge, d3 as add_record_guards

    check_match_record(cx, ob)
    check_merge(cx, ob)
    add_record_guards(cx, ob)


@obligation("C01-X19", "records hold the names they were given (shared with C04-D3): the Record validators reject only a canonical value among the synonyms of its own side and otherwise keep every entry of the synonym lists - a validator that filters the lists (blank entries, repeated entries) removes names from every record built anywhere, so they are in no lookup table", floor=3)
def x19(cx: Cx, ob: Ob) -> None:
    from .c04 import d3 as validators

    validators(cx, ob)
