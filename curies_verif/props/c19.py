"""C19 - discover returns a valid converter that compresses the URIs it learned from."""

from __future__ import annotations

from ..model import AnalysisError
from ..report import Cx, Ob, describe, obligation
from ..rules import where
from ..summ import describe_path
from ..terms import callee_name, concat_parts, is_const, op, show, subterms

describe(
    "C19",
    "other",
    "Shape clauses of discover: the only state carried across input URIs is a defaultdict(set) updated by keyed set.add (commutative and "
    "idempotent, hence order/repetition insensitive); the numbered sequence is derived from sorted(...) of that mapping, filtered by the "
    "cutoff BEFORE numbering, numbered by enumerate(start=1) and named metaprefix + index; the cutoff test is >=; the key stored is the "
    "head of uri.rsplit(delimiter, maxsplit=1) plus the delimiter with an isalnum tail, delimiters tried in the given order, first "
    "success breaks; URIs the supplied converter recognises (is_uri) are skipped before anything is stored; the result is a "
    "default-strict Converter(records).",
    ["CPython ast", "set.add is commutative and idempotent", "sorted is deterministic", "enumerate numbers consecutively"],
    [],
    ["that learned URIs round-trip (C01/C03 applied to the result)"],
)

D = "curies.discovery"


def keyed_add(ev):
    """(accumulator, key, value, kind) for `acc[k].add(v)` / `acc.setdefault(k, set()).add(v)`; else None."""
    if not (ev.kind == "expr" and op(ev.a) == "call" and op(ev.a[1]) == "attr" and ev.a[2]):
        return None
    m, recv = ev.a[1][2], ev.a[1][1]
    if op(recv) == "item" and op(recv[1]) == "new":
        acc = recv[1]
        kind = "set" if (acc[1] == "defaultdict" and acc[4] == ("builtin", "set")) else ("list" if acc[1] == "defaultdict" and acc[4] == ("builtin", "list") else acc[1])
        return acc, recv[2], ev.a[2][0], kind, m
    if op(recv) == "call" and callee_name(recv) == "setdefault" and op(recv[1]) == "attr" and op(recv[1][1]) == "new" and len(recv[2]) == 2:
        d = recv[2][1]
        kind = "set" if (d == ("call", ("builtin", "set"), (), ()) or (op(d) == "display0" and d[1] == "set") or (op(d) == "new" and d[1] == "set")) else "list" if (op(d) in ("list", "display0", "new")) else "?"
        return recv[1][1], recv[2][0], ev.a[2][0], kind, m
    return None


def helper(cx: Cx, ob: Ob):
    fn = cx.fn(f"{D}._get_uri_prefix_to_luids", ob.id)
    return fn, cx.summary(fn, ob.id)


def input_loops(fn, s):
    uris = ("param", "uris")
    return [ev for ev, ctx in s.walk() if ev.kind == "loop" and not ctx.loops and any(x == uris for x in subterms(ev.b))]


def _memo_asks_the_trie(s, name: str) -> bool:
    """Every non-None value the loop-carried local ``name`` is given is assigned under a test that consults the
    supplied converter's trie / reverse table (``converter.trie.keys(prefix=..)``, ``.. in converter.reverse_prefix_map``)."""
    binds = [(ev, ctx) for ev, ctx in s.walk() if ev.kind == "bind" and ev.a == name and ctx.loops and not is_const(ev.b, None)]
    if not binds:
        return False
    for ev, ctx in binds:
        asks = any(g.kind == "guard" and any(op(x) == "attr" and x[2] in ("trie", "reverse_prefix_map", "prefix_map") for x in subterms(g.a)) for g in ctx.guards)
        no_converter = any(g.kind == "guard" and g.b is True and op(g.a) == "cmp" and g.a[1] == "is" and op(g.a[2]) == "param" and is_const(g.a[3], None) for g in ctx.guards)
        if not (asks or no_converter):
            return False
    return True


@obligation("C19-D1", "order/repetition insensitivity: the only state carried across input URIs is a defaultdict(set) updated by keyed set.add", floor=1)
def d1(cx: Cx, ob: Ob) -> None:
    fn, s = helper(cx, ob)
    loops = input_loops(fn, s)
    if not loops:
        ob.undecide("no loop over the input URIs found")
        return
    for lp in loops[:1]:
        if lp.b != ("param", "uris"):
            if any(callee_name(x) in ("sorted", "set", "frozenset") for x in subterms(lp.b) if op(x) == "call"):
                pass  # iterating a normalised view of the input is insensitive as well
            else:
                ob.undecide(f"input loop iterates `{show(lp.b)[:50]}`")
        accs = set()

        def scan(paths, depth=0):
            for p in paths:
                for ev in p.events:
                    if ev.kind == "store":
                        base = ev.a[1] if op(ev.a) in ("item", "attr") else None
                        ob.violate(fn.qualname, where(fn, ev.line), f"the input loop stores `{show(ev.a)[:50]}`: a keyed overwrite makes the result depend on the order of the URIs", detail="store-in-loop")
                    ka = keyed_add(ev)
                    if ka is not None:
                        root, _, _, kind, m = ka
                        accs.add(root)
                        ob.site(f"{where(fn, ev.line)} {fn.qualname}", f"accumulator update .{m} on {show(root)[:30]} ({kind} per key)")
                        if kind != "set":
                            ob.violate(fn.qualname, where(fn, ev.line), f"the accumulator keeps a {kind} per URI prefix, not a set: repeated URIs are counted repeatedly / order matters", witness="discover([u, u]) counts u twice towards the cutoff", detail="accumulator-kind")
                        elif m != "add":
                            ob.violate(fn.qualname, where(fn, ev.line), f"the accumulator is updated with .{m}, not keyed set.add", detail="accumulator-update")
                    elif ev.kind == "expr" and op(ev.a) == "call" and op(ev.a[1]) == "attr" and op(ev.a[1][1]) == "new" and ev.a[1][2] in ("append", "add", "update", "extend"):
                        root = ev.a[1][1]
                        accs.add(root)
                        ob.violate(fn.qualname, where(fn, ev.line), f"the input loop accumulates into a flat {root[1]} with .{ev.a[1][2]}", detail="accumulator-kind")
                    for t in (ev.a, ev.b):
                        if isinstance(t, tuple):
                            for x in subterms(t):
                                if op(x) == "phi" and x[2] == lp.c and _memo_asks_the_trie(s, x[1]):
                                    ob.undecide(f"variable `{x[1]}` carries a remembered URI prefix from one input URI to the next, and is set only after the supplied converter's trie / tables were asked about it: that the test asked makes the shortcut right for every later URI is not decided")
                                elif op(x) == "phi" and x[2] == lp.c:
                                    ob.violate(fn.qualname, where(fn, ev.line), f"variable `{x[1]}` carries a value from one input URI to the next: the result depends on the order of the URIs", detail=f"carried:{x[1]}")
                    if ev.kind in ("loop", "while") and ev.body:
                        scan(ev.body, depth + 1)

        scan(lp.body)
        if not accs:
            ob.undecide("no accumulator update found in the input loop")
    for t, ctx in s.returns():
        inner = t[2][0] if op(t) == "call" and op(t[1]) == "builtin" and t[1][1] == "dict" and t[2] else t
        if op(inner) != "new" and not ctx.loops:
            ob.undecide(f"helper returns `{show(t)[:40]}`")
    # reading a defaultdict by subscript CREATES the entry: a bucket looked up before the test that decides whether the
    # URI contributes stays behind empty when the test fails - a URI prefix with no identifiers, which the cutoff-less
    # filter keeps and numbers
    def _reads_bucket(t):
        return [x for x in subterms(t) if op(x) == "item" and op(x[1]) == "new" and x[1][1] == "defaultdict"] if isinstance(t, tuple) else []

    def _scan(paths) -> bool:
        for p in paths:
            looked = None
            added = False
            for ev in p.events:
                if ev.kind in ("bind", "guard") and _reads_bucket(ev.b if ev.kind == "bind" else ev.a) and looked is None:
                    looked = ev
                ka = keyed_add(ev)
                if ka is not None or (ev.kind == "expr" and op(ev.a) == "call" and op(ev.a[1]) == "attr" and ev.a[1][2] in ("add", "update", "append") and _reads_bucket(ev.a[1][1])):
                    added = True
                if ev.body and _scan(ev.body):
                    return True
            if looked is not None and not added:
                ob.violate(
                    fn.qualname,
                    where(fn, looked.line),
                    f"the bucket `{show(_reads_bucket(looked.b if looked.kind == 'bind' else looked.a)[0])[:50]}` of the defaultdict is looked up (and thereby created) on a path that adds nothing to it: a split that is then rejected leaves an EMPTY entry, which without a cutoff becomes a numbered URI prefix nobody asked for and shifts the names of the genuine ones",
                    witness="discover(['http://purl.obolibrary.org/obo/GO_0001']): the '/' split is rejected ('GO_0001' is not alphanumeric) and 'http://purl.obolibrary.org/obo/' shows up as a prefix",
                    detail="empty-bucket",
                )
                return True
        return False

    _scan(s.paths)


@obligation("C19-D2", "ORDER: the numbered sequence derives from sorted(...) of the mapping, is filtered by the cutoff BEFORE numbering, numbered by enumerate(..., start=1) and named metaprefix + index", floor=1)
def d2(cx: Cx, ob: Ob) -> None:
    fn = cx.fn(f"{D}.discover", ob.id)
    s = cx.summary(fn, ob.id)
    for t, ctx in s.returns():
        line = ctx.path.out[2]
        ctor = [x for x in subterms(t) if op(x) == "call" and op(x[1]) == "cls" and x[1][1].endswith(".Converter")]
        if not ctor:
            ob.undecide("discover does not return Converter(...)")
            continue
        recs = ctor[0][2][0] if ctor[0][2] else dict(ctor[0][3]).get("records")
        if op(recs) == "new" and recs[1] == "list":
            # builder form: records = []; for ... in <sorted mapping>: [if keep:] records.append(Record(...))
            apps = [(ev, c2) for ev, c2 in s.mutations_of(recs) if ev.kind == "expr" and callee_name(ev.a) == "append" and c2.loops]
            others = [ev for ev, c2 in s.mutations_of(recs) if not (ev.kind == "expr" and callee_name(ev.a) == "append" and c2.loops)]
            if len({ev.line for ev, _ in apps}) != 1 or others or (op(recs[4]) == "list" and recs[4][1]):
                ob.undecide("records are built in a loop with more than one append site")
                continue
            ev0, c0 = apps[0]
            lp = c0.loops[-1]
            if len(c0.loops) != 1:
                ob.undecide("records are appended inside nested loops")
                continue
            elt0 = ev0.a[2][0] if ev0.a[2] else None
            kw0 = dict(elt0[3]) if op(elt0) == "call" else {}
            inloop = [(g.a, g.b) for g in c0.guards if g.kind == "guard" and g.line >= lp.line]
            lenrec = ("bin", "+", ("call", ("builtin", "len"), (recs,), ()), ("const", 1))
            pparts = concat_parts(kw0.get("prefix")) if kw0.get("prefix") is not None else None
            if pparts is not None and len(pparts) == 2 and op(pparts[1]) == "call" and pparts[1][1] == ("builtin", "str") and len(pparts[1][2]) == 1:
                pparts = [pparts[0], pparts[1][2][0]]
            ob.site(f"{where(fn, line)} {fn.qualname}", f"records appended in a loop over {show(lp.b)[:70]}")
            if pparts is not None and len(pparts) == 2 and pparts[0] == ("param", "metaprefix") and pparts[1] in (lenrec, ("bin", "+", ("const", 1), ("call", ("builtin", "len"), (recs,), ()))):
                # numbered by the count of records kept so far: consecutive whatever the filter
                val = lp.a
                if kw0.get("uri_prefix") != val and not (op(val) == "tuple" and kw0.get("uri_prefix") == val[1][0]):
                    ob.violate(fn.qualname, where(fn, line), f"record uri_prefix is `{show(kw0.get('uri_prefix'))[:40] if kw0.get('uri_prefix') else None}`, not the URI prefix being iterated", detail="uri-prefix")
                _order_chain(cx, ob, fn, s, lp.b, line)
                continue
            if op(lp.b) == "call" and lp.b[1] == ("builtin", "enumerate") and op(lp.a) == "tuple" and len(lp.a[1]) == 2 and pparts is not None and len(pparts) == 2 and pparts[1] == lp.a[1][0]:
                # numbered by enumerate: same as the comprehension form, the in-loop guards are its filters
                recs = ("comp", "list", elt0, ((lp.a, lp.b, tuple(g for g, pol in inloop)),))
            else:
                ob.undecide(f"records are numbered by `{show(kw0.get('prefix'))[:50] if kw0.get('prefix') else None}` in a builder loop")
                continue
        if op(recs) != "comp" or len(recs[3]) != 1:
            ob.undecide(f"records are `{show(recs)[:60]}`")
            continue
        tgt, it, ifs = recs[3][0]
        ob.site(f"{where(fn, line)} {fn.qualname}", f"records over {show(it)[:80]}")
        if not (op(it) == "call" and op(it[1]) == "builtin" and it[1][1] == "enumerate" and it[2]):
            ob.violate(fn.qualname, where(fn, line), f"prefixes are numbered by `{show(it)[:50]}`, not enumerate(...)", detail="numbering")
            continue
        start = dict(it[3]).get("start") or (it[2][1] if len(it[2]) > 1 else None)
        if not is_const(start, 1):
            ob.violate(fn.qualname, where(fn, line), f"numbering starts at {show(start) if start else '0 (default)'}, not 1", detail="start")
        if ifs:
            ob.violate(
                fn.qualname,
                where(fn, line),
                f"records are filtered (`{show(ifs[0])[:50]}`) AFTER numbering: dropped URI prefixes leave gaps (ns1, ns3, ...) instead of consecutive names",
                witness="cutoff=2 with prefixes a (1 id), b (2 ids): result is named ns2, not ns1",
                detail="filter-after-numbering",
            )
        seq = it[2][0]
        _order_chain(cx, ob, fn, s, seq, line)
        # naming
        elt = recs[2]
        kw = dict(elt[3]) if op(elt) == "call" else {}
        idx, val = (tgt[1] + (None, None))[:2] if op(tgt) == "tuple" else (None, None)
        parts = concat_parts(kw.get("prefix")) if kw.get("prefix") is not None else None
        if parts is not None and len(parts) == 2 and op(parts[1]) == "call" and parts[1][1] == ("builtin", "str") and parts[1][2] == (idx,):
            parts = [parts[0], idx]
        if parts != [("param", "metaprefix"), idx]:
            ob.violate(fn.qualname, where(fn, line), f"record prefix is `{show(kw.get('prefix'))[:40] if kw.get('prefix') else None}`, not metaprefix + index", detail="naming")
        if kw.get("uri_prefix") != val and not (op(val) == "tuple" and kw.get("uri_prefix") == val[1][0]):
            ob.violate(fn.qualname, where(fn, line), f"record uri_prefix is `{show(kw.get('uri_prefix'))[:40] if kw.get('uri_prefix') else None}`, not the enumerated URI prefix", detail="uri-prefix")


def _cutoff_filters(cx: Cx, ob: Ob):
    fn = cx.fn(f"{D}.discover", ob.id)
    s = cx.summary(fn, ob.id)
    out = []
    for t, ev, ctx in s.all_terms():
        for x in subterms(t):
            if op(x) == "comp":
                for g in x[3]:
                    for c in g[2]:
                        if any(y == ("param", "cutoff") for y in subterms(c)):
                            out.append((c, x, ev.line))
    for ev, ctx in s.walk():
        if ev.kind == "guard" and any(y == ("param", "cutoff") for y in subterms(ev.a)):
            out.append((ev.a, None, ev.line))
    return fn, out


@obligation("C19-D3", "cutoff: a URI prefix is kept iff cutoff is None or the number of DISTINCT identifiers is >= cutoff", floor=1)
def d3(cx: Cx, ob: Ob) -> None:
    fn, filters = _cutoff_filters(cx, ob)
    if not filters:
        ob.violate(fn.qualname, fn.where, "discover never applies the cutoff", detail="no-cutoff")
        return
    seen = set()
    none_ok = False
    cmps = []
    cut = ("param", "cutoff")
    for c, comp, line in filters:
        if c in seen:
            continue
        seen.add(c)
        ob.site(f"{where(fn, line)} {fn.qualname}", f"cutoff test {show(c)[:70]}")
        for x in subterms(c):
            if op(x) == "cmp" and x[1] in ("is", "==", "is not", "!=") and x[2] == cut and is_const(x[3], None):
                none_ok = True
            if op(x) == "cmp" and x[1] in (">=", ">", "<=", "<") and cut in (x[2], x[3]):
                cmps.append((x, line))
    if not none_ok:
        ob.violate(fn.qualname, fn.where, "no test lets every URI prefix through when cutoff is None", detail="none-case")
    if not cmps:
        ob.undecide("cutoff comparison not recognised")
    for x, line in cmps:
        o, a, b = x[1], x[2], x[3]
        if a == cut:
            o = {"<=": ">=", "<": ">", ">=": "<=", ">": "<"}[o]
            a, b = b, a
        # `len(luids) < cutoff` is the skip form of `>=`; `<=` the skip form of `>`
        keep_op = {"<": ">=", "<=": ">"}.get(o, o)
        if keep_op != ">=":
            ob.violate(fn.qualname, where(fn, line), f"the cutoff comparison `{show(x)[:40]}` keeps a prefix only with MORE than `cutoff` identifiers: a prefix with exactly `cutoff` identifiers is dropped", witness="cutoff=2 and a URI prefix seen with exactly 2 distinct identifiers", detail=f"cutoff-op:{keep_op}")
        if not (op(a) == "call" and op(a[1]) == "builtin" and a[1][1] == "len"):
            ob.violate(fn.qualname, where(fn, line), f"the cutoff is compared with `{show(a)[:40]}`, not the number of identifiers", detail="cutoff-lhs")


@obligation("C19-D4", "the key stored is head + delimiter of uri.rsplit(delimiter, maxsplit=1) with an alphanumeric tail; delimiters are tried in the given order and the first success breaks", floor=1)
def d4(cx: Cx, ob: Ob) -> None:
    fn, s = helper(cx, ob)
    found = False
    for ev, ctx in s.walk():
        ka = keyed_add(ev)
        if ka is None or ka[4] != "add":
            continue
        if len(ctx.loops) != 2:
            ob.undecide("the store is not inside the URI loop and the delimiter loop")
            continue
        found = True
        uri_lp, d_lp = ctx.loops
        uri, d = uri_lp.a, d_lp.a
        key, val = ka[1], ka[2]
        ob.site(f"{where(fn, ev.line)} {fn.qualname}", f"[{show(key)[:50]}].add({show(val)[:40]})")
        parts = concat_parts(key)
        R = parts[0][1] if parts and len(parts) == 2 and op(parts[0]) == "item" else None
        present = any(g.kind == "guard" and g.a == ("cmp", "in", d, uri) and g.b is True for g in ctx.guards) or any(
            # the middle part of rpartition is truthy exactly where the delimiter occurs
            g.kind == "guard" and g.b is True and op(g.a) == "item" and is_const(g.a[2], 1) and callee_name(g.a[1]) == "rpartition" and op(g.a[1][1]) == "attr" and g.a[1][1][1] == uri and g.a[1][2] == (d,)
            for g in ctx.guards
        )
        alt = None
        if parts and len(parts) == 2 and all(op(x) == "item" for x in parts) and parts[0][1] == parts[1][1] and is_const(parts[0][2], 0) and is_const(parts[1][2], 1) and callee_name(parts[0][1]) == "rpartition" and present:
            # head + middle of rpartition: the middle IS the delimiter where the delimiter occurs
            alt = parts[0][1]
        if op(key) == "slice" and key[1] == uri and (is_const(key[2], None) or is_const(key[2], 0)) and is_const(key[4], None) and op(key[3]) == "bin" and key[3][1] == "-" and key[3][2] == ("call", ("builtin", "len"), (uri,), ()):
            # everything before the tail: uri[: len(uri) - len(tail)]
            tl = key[3][3]
            if op(tl) == "call" and tl[1] == ("builtin", "len") and len(tl[2]) == 1 and op(tl[2][0]) == "item" and callee_name(tl[2][0][1]) in ("rsplit", "rpartition") and present:
                Rt = tl[2][0][1]
                if is_const(tl[2][0][2], 2 if callee_name(Rt) == "rpartition" else 1):
                    alt = Rt
        if alt is not None:
            R = alt
        elif R is None or parts[1] != d or not is_const(parts[0][2], 0):
            ob.violate(fn.qualname, where(fn, ev.line), f"the URI prefix stored is `{show(key)[:60]}`, not <head of the split> + delimiter: learned prefixes do not end in the delimiter", detail="key-shape")
            continue
        if not (op(R) == "call" and op(R[1]) == "attr" and R[1][1] == uri and R[2][:1] == (d,)):
            ob.violate(fn.qualname, where(fn, ev.line), f"the split `{show(R)[:50]}` is not of the URI at the current delimiter", detail="split-args")
            continue
        m = R[1][2]
        ms = dict(R[3]).get("maxsplit") or (R[2][1] if len(R[2]) > 1 else None)
        if m in ("split", "partition"):
            ob.violate(fn.qualname, where(fn, ev.line), f"the URI is cut with str.{m} at the FIRST delimiter: 'http://x/a/b/1' is learned as prefix 'http:/' instead of 'http://x/a/b/'", detail="first-occurrence")
        elif m == "rsplit" and not is_const(ms, 1):
            ob.violate(fn.qualname, where(fn, ev.line), "rsplit without maxsplit=1 cuts at every delimiter", detail="maxsplit")
        elif m not in ("rsplit", "rpartition"):
            ob.undecide(f"split method {m}")
        tail_idx = 2 if m == "rpartition" else 1
        if val != ("item", R, ("const", tail_idx)):
            ob.violate(fn.qualname, where(fn, ev.line), f"the identifier recorded is `{show(val)[:40]}`, not the tail of the split", detail="tail")
        gs = [(g.a, g.b) for g in ctx.guards if g.kind == "guard"]
        if (("item", R, ("const", 0)), True) in gs:
            ob.violate(
                fn.qualname,
                where(fn, ev.line),
                f"a URI is learned from only if the HEAD of the split (`{show(('item', R, ('const', 0)))[:50]}`) is non-empty: that is not the test for 'the delimiter occurs' - a URI that begins with its delimiter ('#Person', '/42', '_b0') has an empty head and is dropped, so it no longer compresses and the numbering of the other prefixes shifts",
                witness="discover(['#a1', '#a2']): no prefix '#' in the result",
                detail="head-required",
            )
        elif m == "rpartition" and not present:
            ob.violate(fn.qualname, where(fn, ev.line), "the URI is cut with rpartition and nothing tests that the delimiter occurs (the middle part, or `delimiter in uri`): for a URI without it the head is '' and the bare delimiter is learned as a URI prefix", detail="rpartition-unchecked")
        if (("call", ("attr", ("item", R, ("const", tail_idx)), "isalnum"), (), ()), True) not in gs:
            ob.violate(fn.qualname, where(fn, ev.line), "the tail is not required to be alphanumeric", detail="isalnum")
        if ctx.path.out != ("break",):
            ob.violate(fn.qualname, where(fn, ev.line), "after a successful split the remaining delimiters are still tried: one URI contributes to several URI prefixes", detail="no-break")
        from ..rules import _strip_views

        dsrc = _strip_views(d_lp.b)
        if dsrc not in (("param", "delimiters"), ("gconst", D, "DEFAULT_DELIMITERS")) and not (op(dsrc) == "or"):
            ob.violate(fn.qualname, where(fn, d_lp.line), f"delimiters are tried in the order of `{show(d_lp.b)[:40]}`, not the given order", detail="delimiter-order")
    if not found:
        ob.undecide("no keyed add into the accumulator found")


@obligation("C19-D5", "URIs already recognised by the supplied converter (converter.is_uri(uri)) are skipped before anything is stored", floor=1)
def d5(cx: Cx, ob: Ob) -> None:
    fn, s = helper(cx, ob)
    conv = ("param", "converter")
    from ..rules import table_of_code

    tab = table_of_code(cx, s.paths)
    if tab:
        ob.undecide(f"{fn.name} decides which URIs to skip through {tab}: the skip conditions are values (a list of predicates), not tests this rule can classify")
        return
    n = 0
    for ev, ctx in s.walk():
        if keyed_add(ev) is None:
            continue
        if not ctx.loops:
            continue
        n += 1
        uri = ctx.loops[0].a
        ob.site(f"{where(fn, ev.line)} {fn.qualname}", "store guarded by the known-URI skip")
        from ..rules import guard_atoms

        ok = False
        for a, pol in guard_atoms(ctx.guards):
            # no converter was supplied: nothing is known, nothing to skip
            if pol is True and op(a) == "cmp" and a[1] == "is" and a[2] == conv and is_const(a[3], None):
                ok = True
            if pol is False and op(a) == "call" and op(a[1]) == "attr" and a[1][1] == conv and a[1][2] == "is_uri" and a[2] == (uri,):
                ok = True
            # `converter.compress(uri) is None` holds
            if pol is True and op(a) == "cmp" and a[1] in ("is", "==") and is_const(a[3], None) and op(a[2]) == "call" and op(a[2][1]) == "attr" and a[2][1][1] == conv and a[2][1][2] in ("compress", "parse_uri") and a[2][2][:1] == (uri,):
                ok = True
        carried = {x[1] for g in ctx.guards if g.kind == "guard" for x in subterms(g.a) if op(x) == "phi"}
        if not ok and carried and all(_memo_asks_the_trie(s, nm_) for nm_ in carried):
            ob.undecide(f"the known-URI test is skipped under a condition on {sorted(carried)}, a memo that is set only after the supplied converter's trie / tables were asked: whether the skip is right is not decided")
            continue
        if not ok:
            ob.violate(
                fn.qualname,
                where(fn, ev.line),
                "a URI is learned from without having been tested with converter.is_uri(uri): URIs the supplied converter already recognises contribute to the result",
                witness="converter knows 'http://purl.example.org/obo/', URI 'http://purl.example.org/obo/GO_0000001' is still split at '_' and learned",
                detail="known-not-skipped",
            )
    if n == 0:
        ob.undecide("no store found")


@obligation("C19-D6", "the result is a default-strict Converter(records); discover forwards converter/uris/delimiters to the helper unchanged", floor=1)
def d6(cx: Cx, ob: Ob) -> None:
    fn = cx.fn(f"{D}.discover", ob.id)
    s = cx.summary(fn, ob.id)
    for t, ctx in s.returns():
        ob.site(f"{where(fn, ctx.path.out[2])} {fn.qualname}", show(t)[:50])
        if not (op(t) == "call" and op(t[1]) == "cls" and t[1][1].endswith(".Converter")):
            ob.violate(fn.qualname, fn.where, "discover does not return a Converter", detail="return")
            continue
        kw = dict(t[3])
        if "strict" in kw and not is_const(kw["strict"], True):
            ob.violate(fn.qualname, fn.where, "discover builds a non-strict converter", detail="strict")
    calls = [c for c, _, _ in s.calls("_get_uri_prefix_to_luids")]
    for c in calls[:1]:
        kw = dict(c[3])
        for p in ("converter", "uris", "delimiters"):
            v_ = kw.get(p)
            while op(v_) == "call" and v_[1] in (("builtin", "list"), ("builtin", "tuple")) and len(v_[2]) == 1 and not v_[3]:
                v_ = v_[2][0]  # a materialised copy: the same elements in the same order
            if v_ != ("param", p):
                ob.violate(fn.qualname, fn.where, f"discover does not forward `{p}` unchanged to the helper", detail=f"forward:{p}")
    if not calls:
        ob.undecide("discover does not call _get_uri_prefix_to_luids")



@obligation("C19-X2", "state closure (shared with C05): all derived converter state is maintained by _index, lookup tables are never rebound after construction, and no query method writes converter state (no stale caches)", floor=5)
def x2(cx: Cx, ob: Ob) -> None:
    from ..rules import state_closure

    state_closure(cx, ob)


def _order_chain(cx: Cx, ob: Ob, fn, s, seq, line) -> None:
    """sorted(...) somewhere between the mapping and the numbering, nothing order-destroying after it."""
    chain = []
    x = seq
    while True:
        if op(x) == "new" and x[1] == "list":
            # a list built by appending inside a loop: follow the loop's iterable
            apps = [(ev, c2) for ev, c2 in s.mutations_of(x) if ev.kind == "expr" and callee_name(ev.a) == "append" and c2.loops]
            if len({id(c2.loops[-1]) for _, c2 in apps}) == 1 and not (op(x[4]) == "list" and x[4][1]):
                chain.append(("builder", x))
                x = apps[0][1].loops[-1].b
                continue
            break
        if op(x) == "item" and op(x[1]) not in ("const",):
            # subscript into the mapping (d[k]) does not change the order of the keys
            x = x[1]
            continue
        if op(x) == "comp" and len(x[3]) == 1:
            chain.append(("comp", x))
            x = x[3][0][1]
        elif op(x) == "call" and op(x[1]) == "builtin" and x[2]:
            chain.append((x[1][1], x))
            x = x[2][0]
        elif op(x) == "call" and op(x[1]) == "attr" and x[1][2] in ("items", "keys") and not x[2]:
            chain.append((x[1][2], x))
            x = x[1][1]
        else:
            break
    names = [k for k, _ in chain]
    if "sorted" not in names:
        ob.violate(fn.qualname, where(fn, line), "URI prefixes are numbered in dictionary (first-seen) order, not sorted order: the names depend on the order of the input URIs", witness="discover([a.., b..]) and discover([b.., a..]) name the prefixes differently", detail="unsorted")
    else:
        before = names[: names.index("sorted")]
        bad = [k for k in before if k in ("set", "frozenset", "reversed", "dict")]
        if bad:
            ob.violate(fn.qualname, where(fn, line), f"the sorted sequence is passed through {bad[0]}(...) before numbering", detail="order-destroyed")
        srt = chain[names.index("sorted")][1]
        kw = dict(srt[3])
        key_ok = "key" not in kw
        if not key_ok:
            from .c13 import _projection

            proj = _projection(cx, kw["key"])
            inner = srt[2][0] if srt[2] else None
            # items of a mapping have distinct keys: ordering by the key alone is the plain order of the items
            if proj in ("id", ("idx", 0)) and op(inner) == "call" and callee_name(inner) == "items":
                key_ok = True
            elif proj == "id":
                key_ok = True
            else:
                # ordered by exactly the value that is then emitted:  [f(x) for x in sorted(xs, key=f)]  is in the
                # plain order of the emitted values
                from ..terms import substitute as _subst

                k = kw["key"]
                outer = [c_ for n_, c_ in chain if n_ == "comp" and c_[3][0][1] == srt]
                if outer and op(k) == "lambda" and len(k[1]) == 1 and not outer[0][3][0][2] is None:
                    comp_ = outer[0]
                    if _subst(k[2], {("lv", k[1][0]): comp_[3][0][0]}) == comp_[2]:
                        key_ok = True
        if ("reverse" in kw and not is_const(kw["reverse"], False)) or not key_ok:
            ob.violate(fn.qualname, where(fn, line), f"URI prefixes are ordered with `{show(srt)[:60]}`, not plain sorted order", detail="sort-key")
    if not (op(x) == "call" and x[1] == ("func", f"{D}._get_uri_prefix_to_luids")):
        ob.undecide(f"the numbered sequence derives from `{show(x)[:50]}`")


@obligation("C19-X7", "IDX (shared with C01/C02): the lookup tables consulted by is_uri of the supplied converter hold every name of every record, unconditionally and completely, on the constructor path and in _index (converters built incrementally answer like freshly built ones)", floor=4)
def x7(cx: Cx, ob: Ob) -> None:
    from .c01 import check_table_roles

    check_table_roles(cx, ob, ["reverse_prefix_map", "trie"])


@obligation("C19-X8", "the Record model stores prefixes and URI prefixes verbatim: no pydantic string transformation (strip / case folding / length limits) in its model_config or field declarations", floor=1)
def x8(cx: Cx, ob: Ob) -> None:
    from ..rules import record_verbatim

    record_verbatim(cx, ob)


@obligation("C19-X4", "'returns a valid converter': the strict constructor rejects exactly the record sets in which a name is claimed twice - both duplicate detectors compare by exact equality over all pairs (shared with C04) - so prefixes that discover() legitimately tells apart (e.g. differing only by case) are accepted", floor=4)
def x4(cx: Cx, ob: Ob) -> None:
    from .c04 import d1 as c04_order, d2 as c04_matrix

    c04_order(cx, ob)
    c04_matrix(cx, ob)


@obligation("C19-X6", "LOOKUP None-discipline (shared with C02-D3): lookup results and str|None results are tested with `is None`, never by truthiness - the empty prefix, the empty URI prefix and the empty identifier are legitimate values", floor=40)
def x6(cx: Cx, ob: Ob) -> None:
    from ..rules import scan_none_discipline
    from .c02 import none_scope

    scan_none_discipline(cx, ob, none_scope(cx))


@obligation("C19-X12", "def-use lints over the files this property is anchored in (api.py, discovery.py): no one-shot iterator (generator expression, map, filter, zip, iter, reversed, enumerate, generator call) bound to a name is consumed twice or inside a loop that starts after its creation; no mutable default argument is mutated, stored or returned; no binary search over a sequence that is not kept sorted; no container resized inside the loop that iterates it; no Iterable parameter consumed twice before it is materialised; itertools.groupby only over input sorted by the grouping key", floor=1)
def x12(cx: Cx, ob: Ob) -> None:
    from ..rules import package_lints

    package_lints(cx, ob, {'api.py', 'discovery.py'})


def _dnf(t, pol: bool) -> list[list]:
    """Disjunctive normal form of a guard (term, polarity): list of conjunctions of (atom, polarity)."""
    o = op(t)
    if o in ("not",):
        return _dnf(t[1], not pol)
    if o == "truth":
        return _dnf(t[1], pol)
    if (o == "and" and pol) or (o == "or" and not pol):
        out = [[]]
        for x in t[1]:
            nxt = []
            for d in _dnf(x, pol):
                for acc in out:
                    nxt.append(acc + d)
            out = nxt
            if len(out) > 64:
                raise AnalysisError("guard too large for DNF")
        return out
    if (o == "or" and pol) or (o == "and" and not pol):
        out = []
        for x in t[1]:
            out += _dnf(x, pol)
        return out
    return [[(t, pol)]]


def _index_on_possibly_empty(ob: Ob, fn, s) -> None:
    """`uri[-1]` / `uri[0]` on an input string that has not been shown to be non-empty: IndexError for '' (a blank
    line in a file of URIs) - discover raises instead of returning a converter.  A slice (`uri[-1:]`) is total."""
    for ev, ctx in s.walk():
        if not ctx.loops:
            continue
        uri = ctx.loops[0].a
        for t in (ev.a, ev.b):
            if not isinstance(t, tuple):
                continue
            for x in subterms(t):
                if op(x) == "item" and x[1] == uri and is_const(x[2]) and isinstance(x[2][1], int):
                    nonempty = any(g.kind == "guard" and ((g.a == uri and g.b is True) or (op(g.a) == "call" and g.a[1] == ("builtin", "len") and g.a[2] == (uri,) and g.b is True)) for g in ctx.guards)
                    if not nonempty:
                        ob.violate(
                            fn.qualname,
                            where(fn, ev.line),
                            f"`{show(x)}` indexes into an input string that may be empty: discover([..., '', ...]) raises IndexError instead of returning a converter (a slice such as uri[-1:] would be total)",
                            witness="discover(['http://example.org/a/1', '']) raises IndexError: string index out of range",
                            detail="index-on-empty",
                        )
                        return


@obligation("C19-D7", "every URI that is not already known to the supplied converter is learned from, except GitHub issue links: each way of skipping a URI requires either converter.is_uri(uri) or uri.startswith('https://github.com')", floor=1)
def d7(cx: Cx, ob: Ob) -> None:
    fn, s = helper(cx, ob)
    conv = ("param", "converter")
    _index_on_possibly_empty(ob, fn, s)
    from ..rules import table_of_code

    tab = table_of_code(cx, s.paths)
    if tab:
        ob.undecide(f"{fn.name} decides which URIs to skip through {tab}: the skip conditions are values (a list of predicates), not tests this rule can classify")
        return
    loops = [ev for ev, ctx in s.walk() if ev.kind == "loop" and not ctx.loops]
    if not loops:
        ob.undecide("no loop over the URIs")
        return
    lp = loops[0]
    uri = lp.a
    n = 0
    for p in lp.body:
        if p.out != ("continue",):
            continue
        if any(ev.kind == "loop" for ev in p.events):
            continue  # a `continue` of the inner delimiter loop
        guards = [(ev.a, ev.b) for ev in p.events if ev.kind == "guard"]
        if not guards:
            ob.violate(fn.qualname, where(fn, lp.line), "every URI is skipped unconditionally", detail="skip-all")
            continue
        n += 1
        # the path is taken when ALL its guards hold: conjunction of the DNFs
        conj = [[]]
        for g, pol in guards:
            nxt = []
            for d in _dnf(g, pol):
                for acc in conj:
                    nxt.append(acc + d)
            conj = nxt
        ob.site(f"{where(fn, p.events[-1].line if p.events else lp.line)} {fn.qualname}", f"skip path with {len(conj)} way(s)")
        for way in conj:
            known = any(pol is True and op(a) == "call" and op(a[1]) == "attr" and a[1][1] == conv and a[1][2] == "is_uri" for a, pol in way) or any(op(a) == "cmp" and is_const(a[3], None) and op(a[2]) == "call" and op(a[2][1]) == "attr" and a[2][1][1] == conv and ((a[1] in ("is not", "!=")) == pol) for a, pol in way)
            github = any(pol is True and op(a) == "call" and op(a[1]) == "attr" and a[1][1] == uri and a[1][2] == "startswith" and a[2] and ((is_const(a[2][0]) and "github.com" in str(a[2][0][1])) or op(a[2][0]) == "gconst") for a, pol in way)
            # only pure FILTERS on the URI are judged here; "no delimiter splits this URI" (a helper
            # returning None, a failed partition) is the normal end of the inner search, not a filter
            def filterish(a) -> bool:
                for x in subterms(a):
                    if op(x) in ("func", "closure") or (op(x) == "param" and x[1] == "delimiters") or (op(x) == "gconst" and "DELIM" in str(x[2]).upper()):
                        return False
                    if op(x) == "call" and op(x[1]) == "attr" and x[1][2] in ("rsplit", "split", "rpartition", "partition", "find", "rfind", "isalnum"):
                        return False
                return True

            if not all(filterish(a) for a, _ in way):
                continue
            # a string that is empty (or blank) holds no delimiter and no identifier: skipping it changes nothing
            blank = any(pol is False and (a == uri or a == ("call", ("attr", uri, "strip"), (), ())) for a, pol in way)
            if blank:
                continue
            if not (known or github):
                ob.violate(
                    fn.qualname,
                    where(fn, p.events[-1].line if p.events else lp.line),
                    f"a URI is skipped when merely `{' and '.join(('' if pol else 'not ') + show(a)[:40] for a, pol in way)}`: neither known to the supplied converter nor a GitHub link - such URIs (and their prefixes) silently drop out of the result and the numbering of the rest shifts",
                    witness="`A and B or C` parses as `(A and B) or C`: 'http://example.org/pull/123' is skipped",
                    detail="skip-too-wide",
                )
    if n == 0:
        ob.note("no skip path in the URI loop")
        ob.site(f"{fn.where} {fn.qualname}", "no skip paths")


@obligation("C19-X30", "expansion path (shared with C02-D1/D2/D5/D6): _split cuts at the first separator, parse_curie splits the unmodified CURIE with self.delimiter, the identifier flows untouched into prefix_map[prefix] + identifier and expand / expand_pair funnel into it - 'compresses under the result and expands back to itself' and 'URIs already recognised by a supplied converter' (converter.is_uri) are answered by these query functions", floor=6)
def x30(cx: Cx, ob: Ob) -> None:
    from .c02 import check_expand_reference, check_expand_wrappers, check_parse_curie_delimiter, check_parse_curie_flow, check_split

    check_split(cx, ob)
    check_parse_curie_delimiter(cx, ob)
    check_parse_curie_flow(cx, ob)
    check_expand_reference(cx, ob, alnum_identifiers=True)
    check_expand_wrappers(cx, ob)


@obligation("C19-X31", "compression path (shared with C01-D2/D3/D4): parse_uri asks the trie for the longest stored prefix of the unmodified URI and returns the rest, compress joins that with self.delimiter and fails only when nothing matched, is_uri is a None-test of it - 'compresses under the result and expands back to itself' and 'URIs already recognised by a supplied converter' (converter.is_uri) are answered by these query functions", floor=6)
def x31(cx: Cx, ob: Ob) -> None:
    from .c01 import check_parse_uri_lookup, check_remainder, curie_join_check, format_curie_check, is_parse_uri_of, is_uri_check

    check_parse_uri_lookup(cx, ob)
    check_remainder(cx, ob)
    # the round-trip clause speaks of URIs with an alphanumeric (non-empty) identifier; a compress that refuses the
    # bare URI prefix matters here only if the recognition test of the supplied converter is answered by compress
    from ..terms import subterms as _sub, op as _op
    isu = cx.summary(cx.fn("curies.api.Converter.is_uri", ob.id), ob.id)
    via_compress = any(_op(y) == "call" and _op(y[1]) == "attr" and y[1][2] in ("compress", "compress_strict") for r_, _ in isu.returns() for y in _sub(r_))
    curie_join_check(cx, ob, "compress", is_parse_uri_of("uri"), "self.parse_uri(uri, ...)", nonempty_identifier_only=not via_compress, alnum_identifiers=True)
    format_curie_check(cx, ob)
    is_uri_check(cx, ob)
