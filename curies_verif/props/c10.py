"""C10 - deriving a new converter never alters the converters it was derived from."""

from __future__ import annotations

from ..analyses.own import CONV_MUTATORS, RECORD_FIELDS, Own, in_scope, param_mutations
from ..report import Cx, Ob, describe, obligation
from ..rules import LISTS, MUTATORS, TABLES, bind_args, construct_of_plain_strings, where
from ..terms import callee_name, is_const, op, show, subterms

describe(
    "C10",
    "other",
    "Ownership / escape analysis (OWN) over every function that takes a converter: D1 no attribute store or in-place mutation on a "
    "Record borrowed from an input converter (or on a list field of a shallow copy of one), D2 no borrowed or shallow-copied Record "
    "is captured by another converter (constructor argument, add_record), D3 no mutator of Converter is called on, and no store made "
    "through, a converter parameter. If D1-D3 hold no alias between input and output state exists, so no history can show a difference.",
    ["CPython ast", "pydantic model_copy(deep=True) / copy.deepcopy copy the two list fields", "str is immutable"],
    ["code outside the package (subclasses overriding add_record) is out of scope"],
    ["nothing of substance: absence of aliases is a shape property"],
)

DERIVATIONS = ["curies.api.chain", "curies.api.Converter.get_subconverter", "curies.reconciliation.remap_curie_prefixes", "curies.reconciliation.remap_uri_prefixes", "curies.reconciliation.rewire", "curies.discovery.discover"]


def scope(cx: Cx, ob: Ob):
    sc = in_scope(cx)
    names = {fn.qualname for fn, _ in sc}
    for q in DERIVATIONS:
        if q not in names:
            ob.undecide(f"derivation {q} not found among functions taking a converter")
    return sc


@obligation("C10-D1", "OWN: no attribute store / in-place mutation on a Record borrowed from an input converter, nor on a list field of a shallow copy of one", floor=6)
def d1(cx: Cx, ob: Ob) -> None:
    pm = param_mutations(cx)
    for fn, ps in scope(cx, ob):
        o = Own(cx, fn, ps)
        ob.site(f"{fn.where} {fn.qualname}", f"converter inputs {ps}")
        for ev, ctx in o.s.walk():
            if ev.kind == "store" and op(ev.a) == "attr":
                tg = o.tag(ev.a[1])
                if tg is not None and tg[0] == "B":
                    ob.violate(fn.qualname, where(fn, ev.line), f"{fn.name} assigns `{show(ev.a)[:60]}` on a Record that belongs to its input `{tg[1]}`", witness=f"the input converter's records differ after the call; its lookup tables still describe the old state", detail=f"store:{ev.a[2]}")
            if ev.kind == "store" and op(ev.a) == "item":
                tg = o.tag(ev.a[1])
                if tg is not None and tg[0] == "L":
                    ob.violate(fn.qualname, where(fn, ev.line), f"{fn.name} stores into list field `{tg[3]}` shared with input `{tg[2]}`", detail=f"item-store:{tg[3]}")
            if ev.kind == "store" and op(ev.a) == "attr" and isinstance(ev.b, tuple):
                # other.F = borrowed.F for a LIST field: the list object itself now belongs to two records
                tv = o.tag(ev.b)
                th = o.tag(ev.a[1])
                if tv is not None and tv[0] == "L" and tv[1] != "S" and not (th is not None and th[0] == "B"):
                    ob.violate(
                        fn.qualname,
                        where(fn, ev.line),
                        f"{fn.name} assigns the list `{show(ev.b)[:50]}` of a record of its input `{tv[2]}` to `{show(ev.a)[:50]}`: the list OBJECT is now held by a record of the result and by the input's record - a later merge into one (add_prefix / add_record with merge=True, chain) appends to both behind the other converter's lookup tables",
                        witness="c2 = f(c1); c2.add_prefix(p, new_uri, merge=True): c1.records shows new_uri as a synonym, c1.compress does not know it",
                        detail=f"list-shared:{tv[3]}",
                    )
            for t in (ev.a, ev.b):
                if not isinstance(t, tuple) or ev.kind not in ("expr", "bind", "store", "guard"):
                    continue
                for c in subterms(t):
                    if op(c) != "call":
                        continue
                    if op(c[1]) == "attr" and callee_name(c) in MUTATORS:
                        tg = o.tag(c[1][1])
                        if tg is not None and tg[0] == "L":
                            kind = "a shallow copy of a record" if tg[1] == "S" else "a record"
                            ob.violate(fn.qualname, where(fn, ev.line), f"{fn.name} mutates list field `{tg[3]}` of {kind} of input `{tg[2]}` in place (.{callee_name(c)})", detail=f"mutate:{tg[3]}")
                    # helper that mutates its Record parameter
                    callee_q = c[1][1] if op(c[1]) == "func" else None
                    recv_ = None
                    if callee_q is None and op(c[1]) == "attr":
                        # a (static) method reached through the class or through a converter object
                        holder = c[1][1]
                        if op(holder) == "cls" and f"{holder[1]}.{c[1][2]}" in pm:
                            callee_q = f"{holder[1]}.{c[1][2]}"
                        elif f"curies.api.Converter.{c[1][2]}" in pm and (o.tag(holder) or (None,))[0] in ("CB", "CF"):
                            callee_q, recv_ = f"curies.api.Converter.{c[1][2]}", holder
                    if callee_q is not None and callee_q in pm:
                        callee = cx.model.functions[callee_q]
                        b = bind_args(callee, c, recv=recv_)
                        if b:
                            for pname in pm[callee_q]:
                                tg = o.tag(b.get(pname))
                                if tg is not None and tg[0] in ("B",):
                                    ob.violate(fn.qualname, where(fn, ev.line), f"{fn.name} passes a Record of input `{tg[1]}` to {callee.name}, which mutates it", detail=f"mutating-callee:{callee.name}")


@obligation("C10-D2", "OWN: no borrowed or shallow-copied Record is captured by a converter other than its owner (Converter(...) argument, add_record)", floor=6)
def d2(cx: Cx, ob: Ob) -> None:
    if ob.id == "C10-D2":
        deep_copies_are_deep(cx, ob)
        copy_hooks_give_fresh_lists(cx, ob)
    for fn, ps in scope(cx, ob):
        o = Own(cx, fn, ps)
        ob.site(f"{fn.where} {fn.qualname}", f"converter inputs {ps}")
        seen = set()
        for t, ev, ctx in o.s.all_terms():
            for c in subterms(t):
                if op(c) != "call":
                    continue
                if ev.kind == "expr" and ev.a == c and op(c[1]) == "cls" and c[1][1].endswith(".Converter"):
                    continue  # constructed and thrown away (a validity check): nothing keeps the records
                tg = o.tag(c)
                if tg is not None and tg[0] == "CF" and tg[1] is not None and tg[1][0] in ("B", "S"):
                    key = ("ctor", ev.line)
                    if key in seen:
                        continue
                    seen.add(key)
                    what = "the Record objects" if tg[1][0] == "B" else "shallow copies (shared synonym lists) of the Record objects"
                    ob.violate(
                        fn.qualname,
                        where(fn, ev.line),
                        f"{fn.name} hands {what} of its input `{tg[1][1]}` to a new Converter: later add_prefix(..., merge=True) on the result edits the input's records",
                        witness=f"{show(c)[:100]}",
                        detail=f"capture-ctor:{tg[1][0]}",
                    )
                if op(c[1]) == "attr" and callee_name(c) == "add_record" and c[2] and _add_record_keeps_argument(cx, c):
                    owner = o.tag(c[1][1])
                    rec = o.tag(c[2][0])
                    if rec is not None and rec[0] in ("B", "S") and owner is not None and not (owner[0] == "CB" and owner[1] == rec[1]):
                        key = ("add", ev.line)
                        if key in seen:
                            continue
                        seen.add(key)
                        ob.violate(
                            fn.qualname,
                            where(fn, ev.line),
                            f"{fn.name} adds a {'Record' if rec[0] == 'B' else 'shallow copy of a Record'} of input `{rec[1]}` to another converter: add_record keeps the object and _merge later mutates it",
                            witness=f"{show(c)[:100]}",
                            detail=f"capture-add:{rec[0]}",
                        )


_KEEPS: dict = {}


def _add_record_keeps_argument(cx: Cx, call=None) -> bool:
    """Does Converter.add_record put the Record OBJECT it is given into self.records (True on the pinned tree), or
    a deep copy it makes itself?  (_merge only reads the incoming record.)  With ``call``: as THAT call runs it -
    append paths whose tests of a flag parameter disagree with the literal the call passes are not taken."""
    _KEEPS = cx.model.__dict__.setdefault("_memo_keeps", {})  # per model object: ids are reused after collection
    fn = cx.model.functions.get("curies.api.Converter.add_record")
    bound = {}
    if call is not None and fn is not None:
        b_ = bind_args(fn, call, recv=call[1][1] if op(call[1]) == "attr" else None)
        bound = {k: v for k, v in (b_ or {}).items() if is_const(v)}
    key = ("add_record", tuple(sorted((k, repr(v)) for k, v in bound.items())))
    if key in _KEEPS:
        return _KEEPS[key]
    keeps = True
    if fn is not None and len(fn.params) > 1:
        s = cx.summary(fn, full=True)
        me = ("param", fn.self_name)
        rec = ("param", fn.params[1].name)
        apps = []
        for ev, ctx in s.walk():
            if ev.kind == "expr" and op(ev.a) == "call" and op(ev.a[1]) == "attr" and ev.a[1][2] in ("append", "insert") and ev.a[1][1] == ("attr", me, "records") and ev.a[2]:
                feasible = all(not (g.kind == "guard" and op(g.a) == "param" and g.a[1] in bound and bool(bound[g.a[1]][1]) != bool(g.b)) for g in ctx.guards)
                if feasible:
                    apps.append(ev.a[2][-1])
        if apps:
            keeps = not all(op(a) == "call" and ((callee_name(a) == "model_copy" and is_const(dict(a[3]).get("deep"), True) and a[1][1] == rec) or (a[1] == ("ext", "copy.deepcopy") and a[2][:1] == (rec,))) for a in apps)
    _KEEPS[key] = keeps
    return keeps


@obligation("C10-D3", "OWN: no mutator of Converter is called on, and no store is made through, a converter parameter", floor=6)
def d3(cx: Cx, ob: Ob) -> None:
    shallow_converter_copies(cx, ob)
    for fn, ps in scope(cx, ob):
        o = Own(cx, fn, ps)
        ob.site(f"{fn.where} {fn.qualname}", f"converter inputs {ps}")
        for ev, ctx in o.s.walk():
            if ev.kind == "store" and op(ev.a) in ("attr", "item"):
                root = ev.a[1]
                chain = []
                while op(root) in ("attr", "item"):
                    chain.append(root[2] if op(root) == "attr" else "[]")
                    root = root[1]
                tg = o.tag(root)
                if tg is not None and tg[0] == "CB" and (op(ev.a[1]) != "attr" or ev.a[1][2] in TABLES or ev.a[1][2] == "records" or ev.a[1] == root):
                    if ev.a[1] == root or (op(ev.a[1]) == "attr" and ev.a[1][1] == root):
                        ob.violate(fn.qualname, where(fn, ev.line), f"{fn.name} stores `{show(ev.a)[:60]}` through its converter input `{tg[1]}`", detail=f"store-through:{show(ev.a)[:40]}")
            if ev.kind == "store" and isinstance(ev.b, tuple):
                # a lookup table of an input converter handed to another object: the object itself, or a
                # copy.copy of the trie (a pygtrie object: its shallow copy shares every node with the original)
                v = ev.b
                shallow = op(v) == "call" and v[1] == ("ext", "copy.copy") and len(v[2]) == 1
                src = v[2][0] if shallow else v
                if op(src) == "attr" and src[2] in TABLES and (not shallow or src[2] == "trie"):
                    tg0 = o.tag(src[1])
                    if tg0 is not None and tg0[0] == "CB":
                        ob.violate(
                            fn.qualname,
                            where(fn, ev.line),
                            f"{fn.name} stores {'a shallow copy of ' if shallow else ''}`{show(src)[:50]}` of its input `{tg0[1]}` as `{show(ev.a)[:50]}`: {'copy.copy of a trie copies only the wrapper, the nodes are shared' if shallow else 'both objects now use one table'}, so adding to the result changes what the input converter answers",
                            witness="chain([a, b]) then a.compress(<URI of b>) is no longer None",
                            detail=f"shares-table:{src[2]}",
                        )
            for t in (ev.a, ev.b):
                if not isinstance(t, tuple) or ev.kind not in ("expr", "bind", "store", "guard"):
                    continue
                for c in subterms(t):
                    if op(c) != "call" or op(c[1]) != "attr":
                        continue
                    name = callee_name(c)
                    recv = c[1][1]
                    tg = o.tag(recv)
                    if tg is not None and tg[0] == "CB" and name in CONV_MUTATORS:
                        ob.violate(fn.qualname, where(fn, ev.line), f"{fn.name} calls {name} on its converter input `{tg[1]}`", detail=f"mutator:{name}")
                    if tg is not None and tg[0] == "ST" and (name in MUTATORS or name in ("intersection_update", "difference_update", "symmetric_difference_update")):
                        ob.violate(
                            fn.qualname,
                            where(fn, ev.line),
                            f"{fn.name} changes in place (.{name}) what `{show(recv)[:50]}` returned: that method hands out an object the converter `{tg[1]}` keeps in self.{tg[2]}, so the input converter's own state changes",
                            witness="the input converter answers differently after the call although it was only read",
                            detail=f"mutate-returned-state:{tg[2]}",
                        )
                    if name in MUTATORS and op(recv) == "attr" and (recv[2] in TABLES or recv[2] == "records"):
                        tg2 = o.tag(recv[1])
                        if tg2 is not None and tg2[0] == "CB":
                            ob.violate(fn.qualname, where(fn, ev.line), f"{fn.name} mutates `{show(recv)[:40]}` of its converter input in place (.{name})", detail=f"mutate-state:{recv[2]}.{name}")


def shallow_converter_copies(cx: Cx, ob: Ob) -> None:
    """A shallow copy of a converter input must not escape: it shares every lookup table with the source."""
    for fn, ps in scope(cx, ob):
        o = Own(cx, fn, ps)
        for t, ev, ctx in o.s.all_terms():
            for c in subterms(t):
                if op(c) == "call" and c[1] in (("ext", "copy.copy"), ("ext", "copy")) and c[2]:
                    tg = o.tag(c[2][0])
                    if tg is not None and tg[0] == "CB":
                        # a shallow copy on which EVERY table (and the record list) is bound anew shares nothing mutable
                        rebound = {e2.a[2] for e2, _c2 in o.s.walk() if e2.kind == "store" and op(e2.a) == "attr" and e2.a[1] == c}
                        need = set(TABLES) | {"records"}
                        if need <= rebound:
                            ob.site(f"{where(fn, ev.line)} {fn.qualname}", "shallow copy of the converter with every table and the record list bound anew")
                            continue
                        if rebound & need:
                            ob.violate(
                                fn.qualname,
                                where(fn, ev.line),
                                f"{fn.name} makes a shallow copy of its converter input `{tg[1]}` and binds {sorted(rebound & need)} anew on it, but not {sorted(need - rebound)}: what is not rebound is the SAME object in both converters - it still describes the source's records, and adding to either converter changes the answers of the other",
                                witness="sub = parent.get_subconverter([...]): sub answers (and remap_* decide) from a table that still knows the parent's other prefixes",
                                detail="shallow-converter-copy:" + "+".join(sorted(need - rebound)),
                            )
                            continue
                        ob.violate(
                            fn.qualname,
                            where(fn, ev.line),
                            f"{fn.name} makes a shallow copy of its converter input `{tg[1]}`: prefix_map, synonym_to_prefix, reverse_prefix_map and the trie are shared, so adding to either converter changes the answers of the other",
                            detail="shallow-converter-copy",
                        )


def deep_copies_are_deep(cx: Cx, ob: Ob) -> None:
    """Every derivation isolates its result with ``record.model_copy(deep=True)`` / ``copy.deepcopy``: that is a
    fresh record only as long as Record does not define a copy hook of its own that hands the synonym LISTS over
    (``dict(self)``, ``self.__dict__``, attribute reads are shallow; ``self.model_dump()`` copies containers)."""
    ci = cx.model.classes.get("curies.api.Record")
    if ci is None:
        return
    for hook in ("__deepcopy__", "__copy__", "model_copy", "__reduce__", "__reduce_ex__"):
        m = ci.methods.get(hook)
        if m is None or hook == "__copy__":
            continue
        s = cx.summary(m)
        me = ("param", m.self_name) if m.self_name else None
        for t, ctx in s.returns():
            shallow = None
            for x in subterms(t):
                if op(x) == "call" and x[1] == ("builtin", "dict") and x[2][:1] == (me,):
                    shallow = "dict(self)"
                if op(x) == "call" and x[1] == ("builtin", "vars") and x[2][:1] == (me,):
                    shallow = "vars(self)"
                if op(x) == "attr" and x[1] == me and x[2] in ("__dict__", *LISTS_):
                    par_ok = any(op(y) == "call" and (y[1] in (("builtin", "list"), ("builtin", "sorted"), ("ext", "copy.deepcopy"), ("ext", "copy.copy"))) and x in y[2] for y in subterms(t))
                    if not par_ok:
                        shallow = f"self.{x[2]}"
            if shallow:
                ob.violate(
                    m.qualname,
                    m.where,
                    f"Record.{hook} builds the copy from {shallow}, which hands over the synonym LIST objects themselves: every `model_copy(deep=True)` / deepcopy in chain, get_subconverter, the remappings and rewire now returns records that share their lists with the input, and a later merge into the result edits the input converter's records",
                    witness="sub = c.get_subconverter(['a']); sub.add_prefix('a', <a's URI prefix>, prefix_synonyms=['x'], merge=True); c's record now lists 'x' but c.expand('x:1') is None",
                    detail=f"shallow-copy-hook:{hook}",
                )
            else:
                ob.site(m.where, f"Record.{hook} builds the copy from copied containers")


LISTS_ = ("prefix_synonyms", "uri_prefix_synonyms")


def copy_hooks_give_fresh_lists(cx: Cx, ob: Ob) -> None:
    """A ``__deepcopy__`` / ``model_copy`` of Record's own that starts from a SHALLOW copy (``self.__copy__()``,
    ``copy.copy(self)``, ``super().model_copy(deep=False)`` on a request for a deep one) must give the result a list
    of its own for BOTH synonym fields - an empty list is as mutable as a full one, and ``_merge`` appends in place."""
    ci = cx.model.classes.get("curies.api.Record")
    if ci is None:
        return
    for hook in ("__deepcopy__", "model_copy"):
        m = ci.methods.get(hook)
        if m is None:
            continue
        s = cx.summary(m, ob.id, full=True)
        me = ("param", m.self_name)

        def shallow_base(t):
            if op(t) != "call":
                return False
            f = t[1]
            kw = dict(t[3])
            if op(f) == "attr" and f[1] == me and f[2] in ("__copy__", "copy"):
                return True
            if op(f) == "ext" and f[1] == "copy.copy" and t[2][:1] == (me,):
                return True
            if op(f) == "attr" and f[2] == "model_copy" and (f[1] == me or show(f[1]).startswith("super")):
                d = kw.get("deep")
                return d is None or is_const(d, False)
            return False

        def fresh(v):
            return (op(v) == "call" and v[1] in (("builtin", "list"), ("builtin", "sorted"))) or (op(v) in ("list", "new") and (op(v) != "new" or v[1] == "list")) or (op(v) == "call" and op(v[1]) == "ext" and v[1][1] in ("copy.copy", "copy.deepcopy")) or (op(v) == "call" and callee_name(v) == "copy")

        for t, ctx in s.returns():
            if not shallow_base(t):
                continue
            if hook == "model_copy":
                # only where a deep copy was asked for
                deep_p = ("param", "deep")
                asked = any(g.kind == "guard" and g.b is True and any(x == deep_p for x in subterms(g.a)) for g in ctx.guards)
                if not asked:
                    continue
            got: set = set()
            undecided = False
            for ev, ectx in s.walk():
                if ev.kind != "store":
                    continue
                a = ev.a
                if op(a) == "attr" and a[1] == t and a[2] in LISTS_:
                    (got.add(a[2]) if fresh(ev.b) else None)
                elif op(a) == "item" and op(a[1]) == "attr" and a[1][1] == t and a[1][2] == "__dict__":
                    k = a[2]
                    if is_const(k) and k[1] in LISTS_ and fresh(ev.b):
                        got.add(k[1])
                    elif op(k) == "bv" and ectx.loops and op(ectx.loops[-1].b) in ("tuple", "list") and fresh(ev.b):
                        got |= {x[1] for x in ectx.loops[-1].b[1] if is_const(x) and x[1] in LISTS_}
                    else:
                        undecided = True
            ob.site(f"{m.where} {m.qualname}", f"copy hook starting from a shallow copy; own lists for {sorted(got)}")
            missing = [f for f in LISTS_ if f not in got]
            if missing and undecided:
                ob.undecide(f"Record.{hook} starts from a shallow copy and replaces fields in a way that was not recognised")
            elif missing:
                ob.violate(
                    m.qualname,
                    where(m, ctx.path.out[2]) if ctx.path.out is not None and len(ctx.path.out) > 2 else m.where,
                    f"Record.{hook} answers a request for a deep copy with a shallow one (`{show(t)[:50]}`) and gives the result no list of its own for {missing}: every `model_copy(deep=True)` in chain, get_subconverter, the remappings and rewire then returns records that share that list with the input's records, and a later merge into the result (Converter._merge appends in place) shows up in the input converter's records behind its lookup tables",
                    witness="sub = c.get_subconverter(['a']); sub.add_prefix('a2', <a's URI prefix>, uri_prefix_synonyms=['http://new/'], merge=True): c.records lists http://new/ but c.compress('http://new/1') is None",
                    detail=f"copy-hook-shares:{hook}:{'+'.join(missing)}",
                )


def check_no_aliasing(cx: Cx, ob: Ob) -> None:
    """D1-D3 together, for properties that need 'no converter shares records with another'."""
    d1(cx, ob)
    d2(cx, ob)
    d3(cx, ob)
    deep_copies_are_deep(cx, ob)
    copy_hooks_give_fresh_lists(cx, ob)
    loaders_copy_their_input(cx, ob)


def loaders_copy_their_input(cx: Cx, ob: Ob) -> None:
    """``Record(**d)`` validates - and thereby COPIES - the synonym lists it is given; ``Record.model_construct(**d)``
    stores the caller's list objects as they are.  A loader that constructs records that way from its argument
    makes every converter loaded from the same in-memory data share its synonym lists: a merge into one of them
    (add_prefix / add_record with merge=True, chain) shows up in the records of the others, whose lookup tables
    know nothing of it."""
    ci = cx.model.cls("curies.api.Converter", ob.id)
    for m in ci.methods.values():
        if not m.is_classmethod or not m.name.startswith("from_") or len(m.params) < 2:
            continue
        s = cx.summary(m, ob.id)
        data = ("param", m.params[1].name)
        for t, ev, _ in s.all_terms():
            for c in subterms(t):
                if not (op(c) == "call" and op(c[1]) == "attr" and c[1][2] == "model_construct" and op(c[1][1]) == "cls" and c[1][1][1].endswith(".Record")):
                    continue
                vals = [v for _, v in c[3]] + list(c[2])
                copied = all(any(op(y) == "call" and y[1] in (("builtin", "list"), ("builtin", "sorted"), ("builtin", "tuple")) or (op(y) == "call" and callee_name(y) in ("copy", "deepcopy")) for y in subterms(v)) for v in vals if isinstance(v, tuple) and op(v) not in ("const",))
                scalars_only = not c[2] and all(k in ("prefix", "uri_prefix", "pattern") for k, _ in c[3])
                if copied or scalars_only or construct_of_plain_strings(c):
                    ob.site(f"{where(m, ev.line)} {m.qualname}", "model_construct from copied values or of string fields only")
                    continue
                ob.violate(
                    m.qualname,
                    where(m, ev.line),
                    f"{m.name} builds records with `{show(c)[:60]}` - no validation, so no copy: the synonym LISTS inside the caller's data become the records' own lists, and two converters loaded from the same in-memory data share them (a merge into one changes the records of the other behind its lookup tables)",
                    witness="epm = [{...,'uri_prefix_synonyms': [...]}]; c1 = from_extended_prefix_map(epm); c2 = from_extended_prefix_map(epm); c1.add_prefix(..., merge=True): c2.records shows the new URI prefix, c2.compress does not know it",
                    detail="construct-keeps-argument",
                )


@obligation("C10-D4", "no derivation mutates an argument object: no store into, deletion from or mutator call on a parameter (mappings, sequences or converters handed in may alias the caller's - even the input converter's own - tables)", floor=6)
def d4(cx: Cx, ob: Ob) -> None:
    for fn, ps in scope(cx, ob):
        s = cx.summary(fn, ob.id, full=True)
        own = {fn.self_name} if fn.self_name else set()
        params = {("param", p.name) for p in fn.params if p.name not in own and p.name != "cls"}
        ob.site(f"{fn.where} {fn.qualname}", f"parameters {sorted(p[1] for p in params)}")
        for ev, ctx in s.walk():
            hit = None
            if ev.kind == "store" and op(ev.a) == "item" and ev.a[1] in params:
                hit = (ev.a[1], f"stores `{show(ev.a)[:40]}`")
            elif ev.kind == "delete" and op(ev.a) == "item" and ev.a[1] in params:
                hit = (ev.a[1], f"deletes `{show(ev.a)[:40]}`")
            elif ev.kind == "expr" and op(ev.a) == "call" and op(ev.a[1]) == "attr" and ev.a[1][1] in params and ev.a[1][2] in MUTATORS:
                hit = (ev.a[1][1], f"calls .{ev.a[1][2]}() on it")
            if hit is not None:
                ob.violate(
                    fn.qualname,
                    where(fn, ev.line),
                    f"{fn.name} mutates its argument `{hit[0][1]}` ({hit[1]}): the caller's object - possibly a table of the input converter itself - is changed",
                    witness="remap_curie_prefixes(c, c.synonym_to_prefix): the input's own lookup table loses entries",
                    detail=f"mutates-argument:{hit[0][1]}",
                )


@obligation("C10-X10", "Converter.__init__ reads its (Iterable, possibly one-shot) `records` argument only through one materialising call (sorted/list) and keeps that fresh list - never the caller's list object, never sorted in place", floor=2)
def x10(cx: Cx, ob: Ob) -> None:
    from ..rules import constructor_owns_records

    constructor_owns_records(cx, ob)


def _every_use_copies(cx: Cx, fn) -> bool:
    """Every call of ``fn`` in the package is the receiver of ``.model_copy(deep=True)`` or the argument of
    ``copy.deepcopy``: the shared object itself never leaves the call site."""
    import ast as _ast

    n_calls = 0
    for g in cx.model.functions.values():
        parents = {}
        for n in _ast.walk(g.node):
            for c in _ast.iter_child_nodes(n):
                parents[id(c)] = n
        for n in _ast.walk(g.node):
            if isinstance(n, _ast.Call) and ((isinstance(n.func, _ast.Name) and n.func.id == fn.name) or (isinstance(n.func, _ast.Attribute) and n.func.attr == fn.name)):
                n_calls += 1
                par = parents.get(id(n))
                gp = parents.get(id(par)) if par is not None else None
                copied = (
                    isinstance(par, _ast.Attribute) and par.attr == "model_copy" and isinstance(gp, _ast.Call) and any(k.arg == "deep" and isinstance(k.value, _ast.Constant) and k.value.value is True for k in gp.keywords)
                ) or (isinstance(par, _ast.Call) and _ast.unparse(par.func).endswith("deepcopy") and par.args and par.args[0] is n)
                if not copied:
                    return False
    return n_calls > 0


@obligation("C10-D5", "no memoised factory hands the same mutable object (trie, dict, list) to several converters: a function decorated with lru_cache / cache must not return a mutable container that is stored in converter state", floor=1)
def d5(cx: Cx, ob: Ob) -> None:
    MUT = ("StringTrie", "dict", "list", "set", "defaultdict", "OrderedDict")
    n = 0
    for fn in cx.model.functions.values():
        n += 1
        if not any("cache" in d for d in fn.decorators) or fn.is_property:
            continue
        s = cx.summary(fn, ob.id, full=True)
        for t, ctx in s.returns():
            mutable = op(t) in ("new", "dict", "list", "set", "comp") or (op(t) == "call" and callee_name(t) in MUT) or (op(t) == "call" and op(t[1]) == "cls" and t[1][1].rsplit(".", 1)[-1] in ("Record", "Converter"))  # Records are changed in place by merges
            if mutable and _every_use_copies(cx, fn):
                ob.site(f"{fn.where} {fn.qualname}", "memoised template: every call site takes a deep copy of the result")
                continue
            if mutable:
                ob.violate(
                    fn.qualname,
                    fn.where,
                    f"{fn.name} is memoised and returns a mutable object (`{show(t)[:50]}`): every caller with equal arguments gets the SAME object, so converters derived from one another share it and a later add_prefix on one changes the answers of the other",
                    witness="rewire(c, {}) shares c's trie; derived.add_prefix(...) makes c compress URIs it does not contain",
                    detail="shared-memoised-object",
                )
    ob.site("src/curies", f"{n} functions scanned for memoised factories")


@obligation("C10-X12", "def-use lints over the files this property is anchored in (api.py, discovery.py, reconciliation.py): no one-shot iterator (generator expression, map, filter, zip, iter, reversed, enumerate, generator call) bound to a name is consumed twice or inside a loop that starts after its creation; no mutable default argument is mutated, stored or returned; no binary search over a sequence that is not kept sorted; no container resized inside the loop that iterates it; no Iterable parameter consumed twice before it is materialised; itertools.groupby only over input sorted by the grouping key", floor=1)
def x12(cx: Cx, ob: Ob) -> None:
    from ..rules import package_lints

    package_lints(cx, ob, {'api.py', 'reconciliation.py', 'discovery.py'})


@obligation("C10-X13", "records are copied and serialised whole: no model_dump(exclude_unset=True) / model_fields_set anywhere in the package (in-place merges do not update pydantic's fields_set)", floor=1)
def x13(cx: Cx, ob: Ob) -> None:
    from ..rules import no_fields_set_dependence

    no_fields_set_dependence(cx, ob)


@obligation("C10-D6", "a derivation returns a NEW converter: no return value of a function in scope can be one of its converter inputs (or an element of a sequence of inputs, e.g. reduce(f, converters) without an initial value for a single converter)", floor=6)
def d6(cx: Cx, ob: Ob) -> None:
    for fn, ps in scope(cx, ob):
        r = fn.node.returns
        import ast as _ast

        if r is None or "Converter" not in _ast.unparse(r):
            continue
        o = Own(cx, fn, ps)
        ob.site(f"{fn.where} {fn.qualname}", "returns a converter")
        for t, ctx in o.s.returns():
            tg = o.tag(t)
            if tg is not None and tg[0] == "CB":
                ob.violate(
                    fn.qualname,
                    where(fn, ctx.path.out[2]),
                    f"{fn.name} can return its input `{tg[1]}` itself (`{show(t)[:50]}`): whatever is done to the 'derived' converter afterwards is done to the input",
                    witness="chain([c]) is c; chain([c]).add_prefix(...) changes c",
                    detail="returns-input",
                )


@obligation("C10-X8", "the Record model copies what it is given: no string transformation and no plain-mode validator on the synonym lists (pydantic's list validation is what makes Record(prefix_synonyms=other.prefix_synonyms) a copy)", floor=1)
def x8(cx: Cx, ob: Ob) -> None:
    from ..rules import record_verbatim

    record_verbatim(cx, ob)


@obligation("C10-X2", "state closure (shared with C05): a derived converter has its OWN lookup tables - none of them is a mutable class-level default shared by every converter that has not bound its own, none is rebound or written by a query; otherwise what is added to a derived converter shows up in the input it was derived from", floor=5)
def x2(cx: Cx, ob: Ob) -> None:
    from ..rules import state_closure

    state_closure(cx, ob)
