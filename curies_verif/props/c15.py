"""C15 - references parse, print, compare and hash consistently."""

from __future__ import annotations

import ast

from ..report import Cx, Ob, describe, obligation
from ..rules import API, CONV, reftuple_args, where
from ..terms import NONE, callee_name, concat_parts, is_const, op, show, subterms
from .c02 import check_split

describe(
    "C15",
    "other",
    "Agreement clauses of the reference classes: __eq__ and __hash__ of Reference read exactly (prefix, identifier) and no subclass "
    "overrides them; __lt__ compares the (prefix, identifier) pair in that order; `curie` prints prefix + ':' + identifier with the same "
    "literal that _split uses as default separator and all from_curie constructors / the string pre-validator go through _split; every "
    "class of the hierarchy is frozen; Prefix validation standardises through a supplied converter (strict) and is the identity without; "
    "name plumbing; write_triples / read_triples agree on columns, order, header and delimiter.",
    ["CPython ast", "pydantic frozen=True enforcement and model_validate(context=...)", "csv module"],
    [],
    ["pydantic run-time behaviour (frozen enforcement, JSON round trip)", "total-order laws"],
)

REF = f"{API}.Reference"
ALTERING = {"str_strip_whitespace", "str_to_lower", "str_to_upper", "str_max_length", "coerce_numbers_to_str", "validate_default", "alias_generator"}


def ref_classes(cx: Cx, ob: Ob):
    base = cx.model.cls(REF, ob.id)
    return [base, *cx.model.subclasses(base)]


def _fields_read(t, obj) -> set:
    return {x[2] for x in subterms(t) if op(x) == "attr" and x[1] == obj}


def _truth_of(t, asg):
    """Truth value of a returned term under an assignment of canonical atoms; None if it is not a formula over them."""
    from ..rules import formula_atoms, formula_eval

    if is_const(t):
        return bool(t[1])
    if "NotImplemented" in show(t) and op(t) not in ("and", "or", "not", "cmp", "call"):
        return False  # Python falls back to identity: different objects are unequal
    try:
        if any(a not in asg for a in formula_atoms(t)):
            return None
        return formula_eval(t, asg)
    except KeyError:
        return None


def _function_rows(s, extra_terms=()):
    """(atoms, rows): every assignment of the atoms tested on the top-level paths (and in the returned
    formulas) with the paths it selects."""
    from ..rules import formula_atoms, path_atoms, truth_table

    atoms = path_atoms(s.paths)
    for p in s.paths:
        if p.out is not None and p.out[0] == "return" and op(p.out[1]) in ("and", "or", "not", "cmp", "call", "truth"):
            for a in formula_atoms(p.out[1]):
                if a not in atoms:
                    atoms.append(a)
    return truth_table(s.paths, atoms)


def _check_ne(cx: Cx, ob: Ob, ci_, ne) -> None:
    """A hand-written __ne__ must be the negation of __eq__ (NotImplemented passed through)."""
    ns = cx.summary(ne, ob.id)
    me_, ot_ = ("param", ne.params[0].name), ("param", ne.params[1].name)
    EQS = (("call", ("attr", me_, "__eq__"), (ot_,), ()), ("cmp", "==", me_, ot_), ("cmp", "==", ("attr", me_, "pair"), ("attr", ot_, "pair")))
    atoms, rows = _function_rows(ns)
    bad = rows is None
    role = {}
    for a in atoms:
        if a in EQS:
            role[a] = "E"
        elif op(a) == "cmp" and a[1] in ("is", "==") and a[2] in EQS and "NotImplemented" in show(a[3]):
            role[a] = "N"
        else:
            bad = True
    if not bad and not any(r == "E" for r in role.values()):
        bad = True
    if not bad:
        for asg, hit in rows:
            es = {asg[a] for a in atoms if role[a] == "E"}
            n = any(asg[a] for a in atoms if role[a] == "N")
            if len(es) != 1:
                continue
            e = next(iter(es))
            for p in hit:
                if p.out is None or p.out[0] != "return":
                    bad = True
                    continue
                t = p.out[1]
                if n:
                    if "NotImplemented" not in show(t):
                        bad = True
                    continue
                v = _truth_of(t, asg)
                if v is None or v != (not e):
                    bad = True
    if bad:
        ob.violate(
            ne.qualname,
            ne.where,
            f"{ci_.name} defines its own __ne__ that is not the negation of __eq__: `!=` and `==` can both be false (or both true) for the same pair, so equality no longer depends on (prefix, identifier) alone",
            witness="Reference('a','1') != Reference('a','2') is False while == is False too",
            detail="ne-not-negation",
        )


def _check_eq(cx: Cx, ob: Ob, eq, want: set) -> None:
    """__eq__ as a boolean function of its atomic tests: true exactly when the other object is a Reference and
    both fields are equal - however the tests are nested, merged, negated or returned."""
    se = cx.summary(eq, ob.id)
    me, other = ("param", eq.params[0].name), ("param", eq.params[1].name)
    for t, ctx in se.returns():
        ob.site(f"{eq.where} {eq.qualname}", show(t)[:90])
    atoms, rows = _function_rows(se)
    if rows is None:
        ob.undecide("__eq__: too many distinct tests")
        return
    role: dict = {}
    for a in atoms:
        if op(a) == "call" and callee_name(a) == "isinstance" and a[2][:1] == (other,):
            role[a] = ("I", None)
            if "Reference" not in show(a[2][1]):
                ob.violate(eq.qualname, eq.where, f"__eq__ tests isinstance against `{show(a[2][1])}`; equality must hold across Reference, NamableReference and NamedReference", detail="isinstance")
        elif op(a) == "cmp" and a[1] == "==" and (_fields_read(a[2], me) | _fields_read(a[2], other) | _fields_read(a[3], me) | _fields_read(a[3], other)):
            fa, fb = _fields_read(a[2], me) | _fields_read(a[2], other), _fields_read(a[3], me) | _fields_read(a[3], other)
            if fa != fb:
                ob.violate(eq.qualname, eq.where, f"__eq__ compares `{show(a[2])[:30]}` with `{show(a[3])[:30]}`", detail="mismatched-compare")
            fs = set()
            for f in fa | fb:
                fs |= {"prefix", "identifier"} if f == "pair" else {f}
            role[a] = ("F", frozenset(fs))
        elif op(a) == "cmp" and a[1] == "is" and {a[2], a[3]} == {me, other}:
            role[a] = ("S", None)
        else:
            role[a] = ("?", None)
            ob.undecide(f"__eq__ test `{show(a)[:50]}` not recognised")
    if ob.undecided:
        return
    covered = set().union(*[r[1] for r in role.values() if r[0] == "F"]) if any(r[0] == "F" for r in role.values()) else set()
    has_inst = any(r[0] == "I" for r in role.values())
    saw_main = False
    flagged = set()
    for asg, hit in rows:
        same = any(asg[a] for a in atoms if role[a][0] == "S")
        inst = all(asg[a] for a in atoms if role[a][0] == "I")
        if same and not (inst and all(asg[a] for a in atoms if role[a][0] == "F")):
            continue  # the same object is a Reference equal to itself
        fields_eq = {f: all(asg[a] for a in atoms if role[a][0] == "F" and f in role[a][1]) for f in covered}
        for p in hit:
            if p.out is None or p.out[0] != "return":
                if p.out is not None and p.out[0] == "raise":
                    continue
                ob.undecide("__eq__ has a path without a return value")
                continue
            got = _truth_of(p.out[1], asg)
            if got is None:
                ob.undecide(f"__eq__ returns `{show(p.out[1])[:50]}`")
                continue
            saw_main = saw_main or got
            expected = inst and all(fields_eq.get(f, True) for f in want)
            if got and not inst and "non-reference" not in flagged:
                flagged.add("non-reference")
                ob.violate(eq.qualname, eq.where, "__eq__ can hold for objects that are not References", detail="non-reference")
            elif got and inst and not expected:
                bad = sorted(f for f in want if not fields_eq.get(f, True))
                key = "eq-missing:" + "+".join(bad)
                if key not in flagged:
                    flagged.add(key)
                    ob.violate(eq.qualname, eq.where, f"__eq__ can hold although {bad} differ", detail=key)
            elif not got and expected:
                extra = sorted(f for f in covered - want if not fields_eq.get(f, True))
                key = "eq-extra:" + "+".join(extra) if extra else "eq-not-fields"
                if key not in flagged:
                    flagged.add(key)
                    ob.violate(eq.qualname, eq.where, f"__eq__ can fail for two References with equal prefix and identifier" + (f": it also compares {extra} - a name must never matter" if extra else ""), detail=key)
    if not saw_main:
        ob.undecide("__eq__: no comparing return found")
    if not has_inst:
        ob.violate(eq.qualname, eq.where, "__eq__ does not require the other object to be a Reference", detail="no-isinstance")
    missing, extra = want - covered, covered - want
    if missing and not any(k.startswith("eq-missing") for k in flagged):
        ob.violate(eq.qualname, eq.where, f"__eq__ does not compare {sorted(missing)}", detail="eq-missing:" + "+".join(sorted(missing)))
    if extra and not any(k.startswith("eq-extra") for k in flagged):
        ob.violate(eq.qualname, eq.where, f"__eq__ also compares {sorted(extra)}: a name must never matter", detail="eq-extra:" + "+".join(sorted(extra)))


@obligation("C15-D1", "eq/hash agreement: Reference.__eq__ compares exactly {prefix, identifier} (plus isinstance(other, Reference)), __hash__ hashes exactly the same fields; no subclass overrides __eq__/__hash__/__lt__", floor=3)
def d1(cx: Cx, ob: Ob) -> None:
    base = cx.model.cls(REF, ob.id)
    for ci_ in ref_classes(cx, ob):
        ne = ci_.methods.get("__ne__")
        if ne is not None:
            _check_ne(cx, ob, ci_, ne)
    eq = base.methods.get("__eq__")
    hs = base.methods.get("__hash__")
    if eq is None or hs is None:
        ob.violate(REF, f"src/curies/{base.module.relpath}:{base.node.lineno}", "Reference does not define both __eq__ and __hash__ (pydantic's defaults compare all fields including subclass names)", detail="missing-dunder")
        return
    want = {"prefix", "identifier"}
    _check_eq(cx, ob, eq, want)
    sh = cx.summary(hs, ob.id)
    hme = ("param", hs.params[0].name)
    for t, ctx in sh.returns():
        ob.site(f"{hs.where} {hs.qualname}", show(t)[:70])
        read = _fields_read(t, hme)
        if read != want:
            ob.violate(hs.qualname, hs.where, f"__hash__ hashes {sorted(read)} while __eq__ compares {sorted(want)}: equal references may hash differently (set/dict membership breaks)", detail="hash-fields:" + "+".join(sorted(read)))
        if not (op(t) == "call" and callee_name(t) == "hash"):
            ob.undecide("__hash__ is not hash(<tuple>)")
    for c in cx.model.subclasses(base):
        for d in ("__eq__", "__hash__", "__lt__"):
            if d in c.methods:
                ob.violate(c.qualname, c.methods[d].where, f"{c.name} overrides {d}: equality/hash/order must depend on (prefix, identifier) only across the hierarchy", detail=f"override:{d}")
        ob.site(f"src/curies/{c.module.relpath}:{c.node.lineno} {c.qualname}", "no comparison overrides")


@obligation("C15-D2", "__lt__ compares (prefix, identifier) tuples in that order", floor=1)
def d2(cx: Cx, ob: Ob) -> None:
    base = cx.model.cls(REF, ob.id)
    lt = base.methods.get("__lt__")
    if lt is None:
        ob.violate(REF, f"src/curies/{base.module.relpath}:{base.node.lineno}", "Reference does not define __lt__", detail="missing")
        return
    s = cx.summary(lt, ob.id)
    me, other = ("param", lt.params[0].name), ("param", lt.params[1].name)
    for t, ctx in s.returns():
        # `return NotImplemented` when the other operand is not a Reference at all: the protocol's way of saying
        # "not mine" - outside the comparisons the property speaks about.  A test against a NARROWER class
        # (self.__class__, a subclass) sends References down that path and is judged like any other return.
        not_ref = [g for g in ctx.guards if g.kind == "guard" and g.b is False and op(g.a) == "call" and g.a[1] == ("builtin", "isinstance") and len(g.a[2]) == 2 and g.a[2][0] == other]
        if not_ref and show(t).endswith("NotImplemented"):
            ty = not_ref[0].a[2][1]
            if op(ty) == "cls" and ty[1] == REF:
                continue
            ob.violate(lt.qualname, lt.where, f"__lt__ answers NotImplemented for every operand that is not an instance of `{show(ty)[:40]}`: a Reference of another class of the hierarchy (a base-class instance compared from a subclass) is refused, so sorting a mixed list raises TypeError depending on the order of its elements", witness="NamedReference(...) < Reference(...) raises TypeError", detail="narrow-type-guard")
            continue
        ob.site(f"{lt.where} {lt.qualname}", show(t)[:90])
        if op(t) != "cmp" or t[1] != "<":
            ob.violate(lt.qualname, lt.where, f"__lt__ returns `{show(t)[:60]}`, not a `<` comparison", detail="operator")
            continue
        def pair_of(x):
            if op(x) == "list" and len(x[1]) == 2:
                return x[1][0], x[1][1]
            return reftuple_args(x)

        a, b = pair_of(t[2]), pair_of(t[3])
        if a is None or b is None:
            read_a = sorted(_fields_read(t[2], me))
            read_b = sorted(_fields_read(t[3], other))
            if read_a or read_b:
                ob.violate(
                    lt.qualname,
                    lt.where,
                    f"__lt__ compares `{show(t[2])[:40]}` < `{show(t[3])[:40]}`, which is not the lexicographic order on the (prefix, identifier) pair",
                    witness="e.g. ('omim','x') < ('omim.ps','1') but 'omim.ps:1' < 'omim:x'; or identifiers ignored when only prefixes are compared",
                    detail="not-pair-order",
                )
            else:
                ob.undecide("__lt__ does not compare two (prefix, identifier) pairs")
            continue
        if a != (("attr", me, "prefix"), ("attr", me, "identifier")) or b != (("attr", other, "prefix"), ("attr", other, "identifier")):
            ob.violate(lt.qualname, lt.where, f"__lt__ compares `{show(t[2])[:40]}` < `{show(t[3])[:40]}`; it must be the lexicographic order on (prefix, identifier) of self vs other", detail="pair")
    derived_orderings(cx, ob)
    field_types_compare_as_strings(cx, ob)


def field_types_compare_as_strings(cx: Cx, ob: Ob) -> None:
    """The pairs that Reference compares and hashes are pairs of the FIELD values: a str subclass used as the type
    of a field (``Prefix``) that brings its own ``__lt__`` / ``__eq__`` / ``__hash__`` changes what `<`, `==` and
    hash of the pair - hence of the reference - mean (tuple comparison asks the elements)."""
    import ast as _ast

    ref = cx.model.classes.get(REF)
    if ref is None:
        return
    for fname, (ann, _v) in ref.fields.items():
        if ann is None:
            continue
        for nm in {n.id for n in _ast.walk(ann) if isinstance(n, _ast.Name)}:
            ci = next((c for c in cx.model.classes.values() if c.name == nm), None)
            if ci is None or not cx.model.is_subclass(ci.name, "str"):
                continue
            ob.site(f"src/curies/{ci.module.relpath}:{ci.node.lineno} {ci.qualname}", f"str subclass used as type of Reference.{fname}")
            for d in ("__lt__", "__le__", "__gt__", "__ge__", "__eq__", "__ne__", "__hash__"):
                m = ci.methods.get(d)
                if m is None:
                    continue
                body = [s_ for s_ in m.node.body if not (isinstance(s_, _ast.Expr) and isinstance(s_.value, _ast.Constant))]
                txt = _ast.unparse(body[0].value) if len(body) == 1 and isinstance(body[0], _ast.Return) and body[0].value is not None else ""
                if txt.replace(" ", "") in (f"super().{d}({m.params[1].name})" if len(m.params) > 1 else "", f"str.{d}(self,{m.params[1].name})" if len(m.params) > 1 else "", f"super().{d}()", f"str.{d}(self)"):
                    continue
                ob.violate(
                    m.qualname,
                    m.where,
                    f"{ci.name}.{d} overrides the string comparison of the values Reference.{fname} holds (`{txt[:60]}`): `<` / `==` / hash of references go through the pair (prefix, identifier), whose elements are asked - the order is no longer the lexicographic order on the pair (case variants compare equal-ish / out of order), and `<` disagrees with `==`",
                    witness="sorted([Reference(prefix='b', identifier='1'), Reference(prefix='B', identifier='2')]) vs the order of the (prefix, identifier) tuples of plain strings",
                    detail=f"field-type-order:{ci.name}.{d}",
                )


def derived_orderings(cx: Cx, ob: Ob) -> None:
    """``__le__`` / ``__gt__`` / ``__ge__`` defined next to ``__lt__`` must denote <=, > and >= of the same order:
    each is read as one of the four relations (a comparison of the two pairs, ``self < other`` / ``other < self``
    or their negations, optionally ``or self == other``) and compared with its name.  Python prefers the REFLECTED
    method of the right operand when its class is a subclass of the left operand's, so a wrong ``__gt__`` changes
    the result of ``a < b`` itself for mixed Reference / NamedReference operands."""
    want = {"__le__": "LE", "__gt__": "GT", "__ge__": "GE", "__lt__": "LT"}
    flip = {"LT": "GT", "GT": "LT", "LE": "GE", "GE": "LE"}
    neg = {"LT": "GE", "GE": "LT", "GT": "LE", "LE": "GT"}
    ops = {"<": "LT", "<=": "LE", ">": "GT", ">=": "GE"}
    for ci in cx.model.classes.values():
        if ci.qualname != REF and not cx.model.is_subclass(ci.name, "Reference"):
            continue
        for mname in ("__le__", "__gt__", "__ge__"):
            m = ci.methods.get(mname)
            if m is None or len(m.params) < 2:
                continue
            me, other = ("param", m.params[0].name), ("param", m.params[1].name)

            def side(x):
                if x == me or any(y == me for y in subterms(x)) and not any(y == other for y in subterms(x)):
                    return "S"
                if x == other or any(y == other for y in subterms(x)) and not any(y == me for y in subterms(x)):
                    return "O"
                return None

            def rel(t):
                if op(t) == "cmp" and t[1] in ops:
                    a, b = side(t[2]), side(t[3])
                    if (a, b) == ("S", "O"):
                        return ops[t[1]]
                    if (a, b) == ("O", "S"):
                        return flip[ops[t[1]]]
                    return None
                if op(t) == "not":
                    r = rel(t[1])
                    return neg[r] if r else None
                if op(t) == "or" and len(t[1]) == 2:
                    rs = [rel(x) for x in t[1]]
                    eqs = [op(x) == "cmp" and x[1] == "==" and {side(x[2]), side(x[3])} == {"S", "O"} for x in t[1]]
                    for r, e in ((rs[0], eqs[1]), (rs[1], eqs[0])):
                        if r in ("LT", "GT") and e:
                            return {"LT": "LE", "GT": "GE"}[r]
                return None

            for t, ctx in cx.summary(m, ob.id).returns():
                if show(t).endswith("NotImplemented"):
                    continue
                got = rel(t)
                ob.site(f"{m.where} {m.qualname}", f"{show(t)[:50]} reads as {got}")
                if got is None:
                    ob.undecide(f"{ci.name}.{mname} returns `{show(t)[:50]}`, not recognised as an order relation of the two operands")
                elif got != want[mname]:
                    ob.violate(
                        m.qualname,
                        m.where,
                        f"{ci.name}.{mname} computes `{show(t)[:50]}`, which is the relation {got}, not {want[mname]}: equal references compare as greater, and because the reflected method of a subclass operand is tried first, `Reference(x) < NamedReference(x)` itself changes",
                        witness="Reference('a','1') < NamedReference('a','1','n') is True although neither pair is smaller",
                        detail=f"derived-order:{mname}={got}",
                    )


def _memo_return(cx: Cx, ob: Ob, ci, m, s, t, ctx) -> bool:
    """``return CACHE.get(key)`` / ``CACHE[key]`` where the same function stores ``CACHE[key] = <what it returns
    after parsing>``: the answer of an earlier, identical call.  Identical only if the key names every parameter
    the stored value depends on (those not pinned by the guards of the store)."""
    from ..rules import guard_atoms

    tab, key = None, None
    if op(t) == "call" and op(t[1]) == "attr" and t[1][2] == "get" and op(t[1][1]) == "gconst" and t[2]:
        tab, key = t[1][1], t[2][0]
    elif op(t) == "item" and op(t[1]) == "gconst":
        tab, key = t[1], t[2]
    if tab is None:
        return False
    stores = [(ev, c2) for ev, c2 in s.walk() if ev.kind == "store" and op(ev.a) == "item" and ev.a[1] == tab]
    if not stores:
        return False
    handled = False
    for ev, c2 in stores:
        val = ev.b
        # the stored value is what this path returns
        if not (c2.path.out is not None and c2.path.out[0] == "return" and c2.path.out[1] == val):
            continue
        handled = True
        if ev.a[2] != key:
            ob.violate(m.qualname, where(m, ev.line), f"{ci.name}.from_curie stores its result under `{show(ev.a[2])[:40]}` but looks it up under `{show(key)[:40]}`", detail="memo-key")
            continue
        pinned = {a[2][1] for a, pol in guard_atoms(c2.guards) if op(a) == "cmp" and a[1] == "is" and op(a[2]) == "param" and is_const(a[3], None) and pol is True}
        needs = {x[1] for x in subterms(val) if op(x) == "param"} - pinned
        has = {x[1] for x in subterms(key) if op(x) == "param"}
        missing = sorted(needs - has)
        if missing:
            ob.violate(
                m.qualname,
                where(m, ev.line),
                f"{ci.name}.from_curie remembers its results under the key `{show(key)[:50]}`, which leaves out {missing}: a call that differs only in {missing[0]} gets the answer of the earlier call (a CURIE parsed with one separator is handed out for another)",
                witness="Reference.from_curie('a/b:c', sep='/') then Reference.from_curie('a/b:c') returns ('a', 'b:c')",
                detail="memo-key",
            )
        else:
            ob.site(f"{m.where} {m.qualname}", f"memoised under {show(key)[:50]} (every parameter the result depends on)")
    return handled


@obligation("C15-D3", "print/parse inverse: both `curie` properties are prefix + ':' + identifier and ':' is _split's default separator; every from_curie and the string pre-validator go through _split and pass (prefix, identifier[, name]) on in order", floor=6)
def d3(cx: Cx, ob: Ob) -> None:
    check_split(cx, ob, callers="reference")
    sp = cx.fn(f"{API}._split", ob.id)
    d = sp.param("sep")
    sep = d.default.value if d is not None and isinstance(d.default, ast.Constant) else None
    for cname in ("ReferenceTuple", "Reference"):
        ci = cx.model.cls(f"{API}.{cname}", ob.id)
        m = ci.methods.get("curie")
        if m is None or not m.is_property:
            ob.violate(ci.qualname, f"src/curies/{ci.module.relpath}:{ci.node.lineno}", f"{cname} has no `curie` property", detail="no-curie")
            continue
        s = cx.summary(m, ob.id)
        me = ("param", m.params[0].name)
        for t, ctx in s.returns():
            parts = concat_parts(t)
            ob.site(f"{m.where} {m.qualname}", show(t)[:50])
            want = [("attr", me, "prefix"), ("const", sep), ("attr", me, "identifier")]
            if parts != want:
                ob.violate(m.qualname, m.where, f"{cname}.curie is `{show(t)[:50]}`; it must be prefix + {sep!r} + identifier (the separator _split cuts at)", detail="template")
    # constructors
    for ci in [cx.model.cls(f"{API}.ReferenceTuple", ob.id), *ref_classes(cx, ob)]:
        m = ci.methods.get("from_curie")
        if m is None:
            continue
        s = cx.summary(m, ob.id)
        for t, ctx in s.returns():
            ob.site(f"{m.where} {m.qualname}", show(t)[:80])
            sc = [x for x in subterms(t) if op(x) == "call" and x[1] == ("func", f"{API}._split")]
            if not sc and _memo_return(cx, ob, ci, m, s, t, ctx):
                continue
            if not sc:
                sup = ("call", ("builtin", "super"), (), ())
                if op(t) == "call" and t[1] == ("attr", sup, "from_curie"):
                    # delegation to the parent's from_curie with every argument forwarded unchanged
                    pos = [p.name for p in m.params[1:] if p.kind == "pos"]
                    okf = all(a == ("param", n) for a, n in zip(t[2], pos)) and all(v_ == ("param", k) for k, v_ in t[3] if k is not None)
                    given = set(pos[: len(t[2])]) | {k for k, _ in t[3]}
                    needed = {p.name for p in m.params[1:]}
                    parent = next((b for b in cx.model.bases(ci) if hasattr(b, "methods") and "from_curie" in b.methods), None)
                    same_sig = parent is not None and [p.name for p in parent.methods["from_curie"].params[1:]] == [p.name for p in m.params[1:]]
                    if okf and given == needed and same_sig:
                        ob.site(f"{m.where} {m.qualname}", "delegates to the parent's from_curie")
                        continue
                # an inline split of the curie at the first separator is the same parse
                from ..rules import first_split

                inline = [(x, first_split(x, ("param", "curie"), ("param", "sep"))) for x in subterms(t) if op(x) == "call"]
                inline = [(x, v) for x, v in inline if v[0] is not None]
                if inline and inline[0][1][0] == "ok":
                    sc = [inline[0][0]]
                    hi, ti = inline[0][1][1], inline[0][1][2]
                    ob.site(f"{m.where} {m.qualname}", f"inline first-separator split `{show(sc[0])[:40]}`")
                elif inline:
                    verdict = inline[0][1][0]
                    why = {"split-all": "str.split without maxsplit=1 cuts at every separator: a CURIE whose identifier contains the separator is rejected or mangled", "last-occurrence": "the string is cut at the LAST separator", "args": "the split is not of the curie at `sep`"}[verdict]
                    ob.violate(m.qualname, m.where, f"{ci.name}.from_curie splits with `{show(inline[0][0])[:40]}`: {why}", witness="'a1:b2:c3' must give ('a1', 'b2:c3')", detail="no-split")
                    continue
                else:
                    ob.violate(m.qualname, m.where, f"{ci.name}.from_curie does not parse through _split (first-separator rule)", detail="no-split")
                    continue
            else:
                hi, ti = 0, 1
            c = sc[0]
            if c[1] == ("func", f"{API}._split") and (c[2][:1] != (("param", "curie"),) or dict(c[3]).get("sep") != ("param", "sep")):
                ob.violate(m.qualname, m.where, f"{ci.name}.from_curie calls `{show(c)[:50]}`, not _split(curie, sep=sep)", detail="split-args")
            head, tail = ("item", c, ("const", hi)), ("item", c, ("const", ti))
            if ci.name == "ReferenceTuple":
                if not (op(t) == "call" and t[1] == ("param", "cls") and t[2] in ((head, tail), (("star", c),))):
                    ob.violate(m.qualname, m.where, "ReferenceTuple.from_curie does not build cls(prefix, identifier) in that order", detail="order")
                continue
            if not (op(t) == "call" and op(t[1]) == "attr" and t[1][2] == "model_validate" and t[1][1] == ("param", "cls")):
                ob.violate(m.qualname, m.where, f"{ci.name}.from_curie does not validate through cls.model_validate", detail="no-validate")
                continue
            payload = t[2][0] if t[2] else None
            from ..rules import dict_items

            items = dict_items(s, payload)
            if items is None:
                ob.undecide(f"{ci.name}.from_curie: payload `{show(payload)[:50]}` not recognised")
                continue
            if items.get("prefix") != head or items.get("identifier") != tail:
                ob.violate(m.qualname, m.where, f"{ci.name}.from_curie passes prefix/identifier as `{show(items.get('prefix'))[:30] if items.get('prefix') else '?'}` / `{show(items.get('identifier'))[:30] if items.get('identifier') else '?'}`: not (head, tail) of the split", detail="roles")
            if m.param("name") is not None and items.get("name") != ("param", "name"):
                ob.violate(m.qualname, m.where, f"{ci.name}.from_curie does not pass the name on", detail="name")
            if dict(t[3]).get("context") != ("param", "converter"):
                ob.violate(m.qualname, m.where, f"{ci.name}.from_curie does not pass context=converter to validation", detail="context")
    # string pre-validator
    base = cx.model.cls(REF, ob.id)
    pre = [m for m in base.methods.values() if any(d.startswith("model_validator") for d in m.decorators)]
    if not pre:
        ob.violate(REF, f"src/curies/{base.module.relpath}:{base.node.lineno}", "Reference has no string pre-validator: Reference.model_validate('a:b') fails", detail="no-prevalidator")
    any_str_branch = False
    for m in pre:
        s = cx.summary(m, ob.id)
        v = ("param", m.params[1].name)
        okp = False
        for t, ctx in s.returns():
            def _types(g):
                tt = g.a[2][1] if len(g.a[2]) > 1 else None
                return [show(y).rsplit(".", 1)[-1] for y in (tt[1] if op(tt) == "tuple" else (tt,))] if tt is not None else []

            inst = [g for g in ctx.guards if g.kind == "guard" and op(g.a) == "call" and callee_name(g.a) == "isinstance" and g.a[2][:1] == (v,)]
            not_str = any(g.b is False and "str" in _types(g) for g in inst)
            abcs = [n_ for g in inst if g.b is True for n_ in _types(g) if n_ in ("Sequence", "Collection", "Iterable", "Container", "Sized", "Reversible", "Hashable")]
            if abcs and not not_str and t != v and not any(g.b is True and "str" in _types(g) for g in inst):
                ob.violate(
                    m.qualname,
                    m.where,
                    f"the pre-validator takes every `{abcs[0]}` apart as a (prefix, identifier) pair (`{show(t)[:50]}`) - a str IS a {abcs[0]}: a CURIE string that meets the test (two characters long, ..) is unpacked character by character before the string branch can cut it at the separator",
                    witness="Reference.model_validate('a:') gives prefix='a', identifier=':' instead of ('a', '')",
                    detail="str-is-a-sequence",
                )
                okp = True
                continue
            if inst and any(g.b is True for g in inst) and not any(g.b is True and ("str" in _types(g) or set(_types(g)) & {"Sequence", "Collection", "Iterable", "Container", "Sized", "Reversible", "Hashable", "object", "Any"}) for g in inst):
                # a branch for inputs of another kind (a tuple, a list, a mapping): not string validation
                ob.site(f"{m.where} {m.qualname}", f"branch for {sorted({n_ for g in inst if g.b is True for n_ in _types(g)})} input: {show(t)[:50]}")
                continue
            isstr = any(g.kind == "guard" and g.b is True and op(g.a) == "call" and callee_name(g.a) == "isinstance" and g.a[2][0] == v for g in ctx.guards)
            if isstr:
                ob.site(f"{m.where} {m.qualname}", show(t)[:70])
                from ..rules import dict_items as _di

                items = _di(s, t) or {}
                sc = [x for x in subterms(t) if op(x) == "call" and x[1] == ("func", f"{API}._split")]
                if not sc:
                    # delegation to ReferenceTuple.from_curie(value) (checked with the constructors above)
                    RT = ("cls", f"{API}.ReferenceTuple")
                    viart = [x for x in subterms(t) if op(x) == "call" and x[1] == ("attr", RT, "from_curie") and x[2][:1] == (v,) and (dict(x[3]).get("sep") is None or is_const(dict(x[3]).get("sep"), sep))]
                    if viart:
                        R_ = viart[0]
                        want1 = ("call", ("attr", R_, "_asdict"), (), ())
                        want2 = {"prefix": ("attr", R_, "prefix"), "identifier": ("attr", R_, "identifier")}
                        want3 = {"prefix": ("item", R_, ("const", 0)), "identifier": ("item", R_, ("const", 1))}
                        if t == want1 or items in (want2, want3):
                            okp = True
                            continue
                    from ..rules import first_split as _fs

                    cuts = [(x, _fs(x, v, ("const", sep))) for x in subterms(t) if op(x) == "call"]
                    cuts = [(x, r_) for x, r_ in cuts if r_[0] is not None]
                    if not cuts:
                        # the string is taken apart in some other way (a regular expression, a parser object): that
                        # it cuts at the first separator is a question about that mechanism, not about a call shape
                        ob.undecide(f"the string pre-validator does not cut its input with _split / str.partition / str.split (it returns `{show(t)[:50]}`): where it cuts is not decided")
                        okp = True
                        continue
                    ob.violate(m.qualname, m.where, "the string pre-validator does not parse through _split", detail="no-split")
                    continue
                c = sc[0]
                if c[2][:1] != (v,) or (dict(c[3]).get("sep") is not None and not is_const(dict(c[3]).get("sep"), sep)):
                    ob.violate(m.qualname, m.where, f"the string pre-validator calls `{show(c)[:40]}`", detail="split-args")
                if items.get("prefix") != ("item", c, ("const", 0)) or items.get("identifier") != ("item", c, ("const", 1)):
                    ob.violate(m.qualname, m.where, "the string pre-validator swaps or alters prefix/identifier", detail="roles")
                okp = True
            elif t != v:
                ob.violate(m.qualname, m.where, f"the pre-validator returns `{show(t)[:40]}` for non-string input instead of passing it through", detail="passthrough")
        any_str_branch = any_str_branch or okp
    if pre and not any_str_branch:
        ob.violate(pre[0].qualname, pre[0].where, "no pre-validator of Reference has a branch for string input", detail="no-str-branch")


@obligation("C15-D4", "every class in the Reference hierarchy is frozen (explicitly or by inheritance; none sets frozen=False)", floor=3)
def d4(cx: Cx, ob: Ob) -> None:
    # pydantic's model_copy(update=..) starts from `self.__copy__()` and writes the update into that object's
    # __dict__: a __copy__ that hands back `self` turns model_copy(update=..) into an in-place edit of a frozen object
    for ci in ref_classes(cx, ob):
        cp = ci.methods.get("__copy__")
        if cp is not None and ci.methods.get("model_copy") is None:
            rets_ = [n_ for n_ in ast.walk(cp.node) if isinstance(n_, ast.Return)]
            if rets_ and all(isinstance(r_.value, ast.Name) and r_.value.id == cp.params[0].name for r_ in rets_):
                ob.violate(
                    cp.qualname,
                    cp.where,
                    f"{ci.name}.__copy__ returns the instance itself: pydantic's model_copy(update=..) applies the update to the object __copy__ gives it, so `ref.model_copy(update={{'identifier': ..}})` rewrites the ORIGINAL in place - prefix, identifier, hash and string of an object that sits in sets and dict keys change; instances are no longer immutable",
                    witness="r = Reference(prefix='a', identifier='1'); s = {r}; r.model_copy(update={'identifier': '2'}); r.identifier == '2' and r not in s",
                    detail="copy-returns-self",
                )
    for ci in ref_classes(cx, ob):
        cfg = ci.assigns.get("model_config")
        where_ = f"src/curies/{ci.module.relpath}:{ci.node.lineno}"
        ob.site(f"{where_} {ci.qualname}", f"model_config = {ast.unparse(cfg) if cfg is not None else '(inherited)'}")
        if cfg is None:
            if ci.qualname == REF:
                ob.violate(ci.qualname, where_, "Reference has no model_config: instances are mutable and pydantic does not make them hashable", detail="no-config")
            continue
        frozen = None
        if isinstance(cfg, ast.Call):
            for k in cfg.keywords:
                if k.arg == "frozen" and isinstance(k.value, ast.Constant):
                    frozen = k.value.value
                if k.arg in ALTERING and not (isinstance(k.value, ast.Constant) and k.value.value in (False, None)):
                    ob.violate(ci.qualname, where_, f"{ci.name}.model_config sets {k.arg}: prefix/identifier strings are altered on construction, so printing and parsing are no longer inverse", witness="Reference(prefix='a', identifier=' 1').curie == 'a:1'", detail=f"config:{k.arg}")
        elif isinstance(cfg, ast.Dict):
            for k, v in zip(cfg.keys, cfg.values):
                if isinstance(k, ast.Constant) and k.value == "frozen" and isinstance(v, ast.Constant):
                    frozen = v.value
        if frozen is False:
            ob.violate(ci.qualname, where_, f"{ci.name} sets frozen=False: instances can be mutated after hashing", detail="frozen-false")
        elif frozen is None and ci.qualname == REF:
            ob.violate(ci.qualname, where_, "Reference's model_config does not set frozen=True", detail="not-frozen")
        elif frozen is None:
            # pydantic merges model_config with the parent's: frozen is inherited
            pass


@obligation("C15-D5", "converter-aware validation: Reference.prefix is typed Prefix; Prefix._validate is the identity without a converter and converter.standardize_prefix(v, strict=True) with one", floor=2)
def d5(cx: Cx, ob: Ob) -> None:
    base = cx.model.cls(REF, ob.id)
    ann = base.fields.get("prefix", (None, None))[0]
    ob.site(f"src/curies/{base.module.relpath}:{base.node.lineno} {base.qualname}", f"prefix: {ast.unparse(ann) if ann is not None else '?'}")
    if ann is None or ast.unparse(ann) != "Prefix":
        ob.violate(REF, f"src/curies/{base.module.relpath}:{base.node.lineno}", f"Reference.prefix is typed `{ast.unparse(ann) if ann is not None else '?'}`, not Prefix: a converter supplied as validation context is ignored", detail="prefix-type")
    pc = cx.model.cls(f"{API}.Prefix", ob.id)
    # pydantic semantics (written from its documentation): (1) a model class that defines its own __init__ is
    # validated as cls(**data), and BaseModel.__init__ validates WITHOUT the caller's context - the converter handed to
    # model_validate / from_curie never reaches Prefix._validate; (2) in Prefix's core schema every branch
    # (python and json) must wrap the info-aware validator - a `no_info_*` validator function never sees the context
    for ci in cx.model.classes.values():
        if ci.qualname == REF or cx.model.is_subclass(ci.name, "Reference"):
            init_ = ci.methods.get("__init__")
            if init_ is not None:
                ob.violate(
                    init_.qualname,
                    init_.where,
                    f"{ci.name} defines its own __init__: pydantic then builds instances of it (and of its subclasses) through cls(**data), and BaseModel.__init__ re-validates without the validation context - `from_curie(.., converter=c)`, `from_reference(.., converter=c)` and `model_validate(.., context=c)` no longer standardise or check the prefix for these classes",
                    witness="NamedReference.from_curie('go:1', name='x', converter=c).prefix stays 'go'; an unknown prefix is accepted",
                    detail=f"model-init-override:{ci.name}",
                )
            ob.site(f"src/curies/{ci.module.relpath}:{ci.node.lineno} {ci.qualname}", "no __init__ override in the Reference hierarchy")
    sch = pc.methods.get("__get_pydantic_core_schema__")
    if sch is not None:
        for n in ast.walk(sch.node):
            if isinstance(n, ast.Call) and isinstance(n.func, ast.Attribute) and n.func.attr.startswith("no_info_") and n.func.attr.endswith("_validator_function"):
                ob.violate(
                    sch.qualname,
                    f"src/curies/{sch.module.relpath}:{n.lineno}",
                    f"Prefix's core schema uses `{n.func.attr}` on one of its branches: that validator is not handed the ValidationInfo, so on that branch (JSON input: model_validate_json) a converter supplied as context is never consulted - synonyms are kept and unknown prefixes accepted",
                    witness="Reference.model_validate_json('{\"prefix\": \"go\", \"identifier\": \"1\"}', context=c).prefix == 'go'",
                    detail="schema-branch-without-info",
                )
        ob.site(f"{sch.where} {sch.qualname}", "every validator function of Prefix's schema is info-aware")
    v = pc.methods.get("_validate")
    if v is None:
        ob.violate(pc.qualname, f"src/curies/{pc.module.relpath}:{pc.node.lineno}", "Prefix has no _validate hook", detail="no-validate")
        return
    s = cx.summary(v, ob.id)
    val = ("param", v.params[1].name)
    info = ("param", v.params[2].name)
    seen_none = seen_conv = False
    for t, ctx in s.returns():
        line = ctx.path.out[2]
        conv_guard = [g for g in ctx.guards if g.kind == "guard" and op(g.a) == "cmp" and is_const(g.a[3], None)]
        if not conv_guard:
            ob.undecide("Prefix._validate does not branch on the converter being None")
            continue
        g = conv_guard[0]
        conv = g.a[2]
        none_branch = (g.a[1] == "is") == g.b
        ob.site(f"{where(v, line)} {v.qualname}", ("no converter: " if none_branch else "with converter: ") + show(t)[:60])
        if not (op(conv) == "call" and conv[1] == ("func", f"{API}._converter_from_validation_info") and conv[2] == (info,)):
            ob.violate(v.qualname, where(v, line), "the converter is not taken from the validation info", detail="converter-source")
        inner = t[2][0] if op(t) == "call" and t[1] == ("param", "cls") and len(t[2]) == 1 else t
        if none_branch:
            seen_none = True
            if inner != val:
                ob.violate(v.qualname, where(v, line), f"without a converter Prefix._validate returns `{show(inner)[:40]}`, not the value unchanged", detail="identity")
        else:
            seen_conv = True
            okc = op(inner) == "call" and op(inner[1]) == "attr" and inner[1][1] == conv and inner[1][2] == "standardize_prefix" and inner[2][:1] == (val,)
            if not okc:
                ob.violate(v.qualname, where(v, line), f"with a converter Prefix._validate returns `{show(inner)[:60]}`, not converter.standardize_prefix(value, strict=True)", detail="standardize")
            elif not is_const(dict(inner[3]).get("strict"), True):
                # the non-strict call is just as strict when its None result is turned into a ValueError by hand
                kw_ = dict(inner[3])
                by_hand = (
                    not is_const(kw_.get("passthrough"), True)
                    and any(g.kind == "guard" and g.a == ("cmp", "is", inner, NONE) and g.b is False for g in ctx.guards)
                    and any(
                        any(g.kind == "guard" and g.a == ("cmp", "is", inner, NONE) and g.b is True for g in rctx.guards)
                        and (callee_name(rt) if op(rt) == "call" else "") and (callee_name(rt) == "ValueError" or cx.model.is_subclass(callee_name(rt), "ValueError"))
                        for rt, rctx in s.raises()
                    )
                )
                if by_hand:
                    ob.site(f"{where(v, line)} {v.qualname}", "non-strict standardisation, None turned into ValueError by hand")
                else:
                    ob.violate(v.qualname, where(v, line), "Prefix._validate standardises without strict=True: unknown prefixes are accepted (None / passthrough) instead of rejected", detail="strict")
            elif is_const(dict(inner[3]).get("passthrough"), True):
                ob.violate(v.qualname, where(v, line), "Prefix._validate passes passthrough=True", detail="passthrough")
    if not seen_none or not seen_conv:
        ob.violate(v.qualname, v.where, "Prefix._validate lacks the with-converter or the without-converter branch", detail="branches")
    # the schema hook must install _validate
    h = pc.methods.get("__get_pydantic_core_schema__")
    if h is not None:
        hs = cx.summary(h, ob.id)
        if not any(x == ("attr", ("param", h.params[0].name), "_validate") for t, _ in hs.returns() for x in subterms(t)):
            ob.violate(h.qualname, h.where, "the pydantic schema hook does not install Prefix._validate", detail="hook")
    # context extraction helper
    ch = cx.fn(f"{API}._converter_from_validation_info", ob.id)
    cs = cx.summary(ch, ob.id)
    ctxattr = ("attr", ("param", ch.params[0].name), "context")
    truthy_use = False
    for t, ev, ctx in cs.all_terms():
        for x in subterms(t):
            if op(x) == "or" and x[1] and x[1][0] == ctxattr:
                truthy_use = True
            if op(x) == "ifexp" and x[1] == ctxattr:
                truthy_use = True
        if ev.kind == "guard" and ev.a == ctxattr:
            truthy_use = True
    for tt, ev, ctx in cs.all_terms():
        if True:
            for x in subterms(tt):
                if op(x) == "call" and op(x[1]) == "attr" and x[1][2] in ("pop", "popitem", "clear", "update", "setdefault", "__delitem__") and any(y == ctxattr for y in subterms(x[1][1])):
                    ob.violate(
                        ch.qualname,
                        where(ch, ev.line),
                        f"_converter_from_validation_info mutates the validation context (.{x[1][2]}): pydantic hands the SAME context object to every field validator of a validation, and callers reuse it across calls - after the first prefix the converter is gone and later references are neither standardised nor rejected",
                        witness="Triple.model_validate({...}, context={'converter': c}): only the subject is standardised",
                        detail="context-mutated",
                    )
    for ev, ctx in cs.walk():
        if ev.kind in ("store", "delete") and op(ev.a) == "item" and any(y == ctxattr for y in subterms(ev.a[1])):
            ob.violate(ch.qualname, where(ch, ev.line), "_converter_from_validation_info writes into the validation context", detail="context-mutated")
    if truthy_use:
        conv_cls = cx.model.cls(CONV, ob.id)
        for dunder in ("__len__", "__bool__"):
            mth = cx.model.find_method(conv_cls, dunder)
            if mth is not None:
                ob.violate(
                    mth.qualname,
                    mth.where,
                    f"Converter defines {dunder} while _converter_from_validation_info tests `info.context` by truthiness: a converter without records is falsy, is replaced by {{}} and validation silently proceeds without a converter - unknown prefixes are accepted",
                    witness="Reference.model_validate('nope:1', context=Converter([])) succeeds",
                    detail=f"falsy-converter:{dunder}",
                )
    for t, ctx in cs.returns():
        isconv = any(g.kind == "guard" and g.b is True and op(g.a) == "call" and callee_name(g.a) == "isinstance" and "Converter" in show(g.a[2][1]) for g in ctx.guards)
        if isconv and not (op(t) == "call" and callee_name(t) == "or") and op(t) not in ("or", "attr", "bv") and not any(x == ("attr", ("param", ch.params[0].name), "context") for x in subterms(t)):
            ob.violate(ch.qualname, ch.where, "a Converter given as context is not returned as the converter", detail="context-converter")


@obligation("C15-D6", "name plumbing: NamableReference.from_reference keeps a name when the source has one; NamedReference.from_reference requires one (TypeError) and passes it on", floor=2)
def d6(cx: Cx, ob: Ob) -> None:
    for cname in ("NamableReference", "NamedReference"):
        ci = cx.model.cls(f"{API}.{cname}", ob.id)
        m = ci.methods.get("from_reference")
        if m is None:
            ob.violate(ci.qualname, f"src/curies/{ci.module.relpath}:{ci.node.lineno}", f"{cname} does not define from_reference", detail="missing")
            continue
        s = cx.summary(m, ob.id)
        r = ("param", m.params[1].name)
        for t, ctx in s.returns():
            ob.site(f"{m.where} {m.qualname}", show(t)[:80])
            payload = t[2][0] if op(t) == "call" and t[2] else None
            from ..rules import dict_items

            items = dict_items(s, payload)
            if items is None:
                ob.undecide(f"{cname}.from_reference: payload `{show(payload)[:50]}` not recognised")
                continue
            if items.get("prefix") != ("attr", r, "prefix") or items.get("identifier") != ("attr", r, "identifier"):
                ob.violate(m.qualname, m.where, f"{cname}.from_reference does not copy (prefix, identifier)", detail="roles")
            nm = items.get("name")
            nameless = any(g.kind == "guard" and g.b is False and op(g.a) == "call" and callee_name(g.a) == "isinstance" and g.a[2][0] == r for g in ctx.guards)
            if nameless and is_const(nm, None):
                pass  # a plain Reference has no name to keep
            elif nm is None or not any(x == ("attr", r, "name") for x in subterms(nm)):
                ob.violate(m.qualname, m.where, f"{cname}.from_reference drops the source's name", detail="name")
            if dict(t[3]).get("context") != ("param", "converter"):
                ob.violate(m.qualname, m.where, f"{cname}.from_reference does not pass context=converter", detail="context")
        if cname == "NamedReference":
            if not any(callee_name(t) == "TypeError" or t == ("builtin", "TypeError") for t, _ in s.raises()):
                ob.violate(m.qualname, m.where, "NamedReference.from_reference does not reject name-less references", detail="no-typeerror")
    nr = cx.model.cls(f"{API}.NamedReference", ob.id)
    ann = nr.fields.get("name", (None, None))[0]
    if ann is None or ast.unparse(ann) != "str":
        ob.violate(nr.qualname, f"src/curies/{nr.module.relpath}:{nr.node.lineno}", "NamedReference.name is not a required str", detail="name-type")


def _check_from_curies(cx: Cx, ob: Ob, T: str, order) -> None:
    fc = cx.model.functions.get(f"{T}.Triple.from_curies")
    if fc is None:
        ob.undecide("Triple.from_curies not found")
        return
    fs = cx.summary(fc, ob.id)
    for t2, _ in fs.returns():
        kw2 = dict(t2[3]) if op(t2) == "call" else {}
        names = [p.name for p in fc.params[1:4]]
        for nm, pn in zip(order, names):
            v = kw2.get(nm)
            if not (op(v) == "call" and callee_name(v) == "from_curie" and v[2][:1] == (("param", pn),)):
                ob.violate(fc.qualname, fc.where, f"Triple.from_curies does not build `{nm}` from its `{pn}` argument", detail=f"from-curies:{nm}")


@obligation("C15-D7", "triples AGREE: write_triples columns are (subject, predicate, object).curie; read_triples unpacks the same three in the same order through from_curie; header written once / skipped once; same delimiter", floor=2)
def d7(cx: Cx, ob: Ob) -> None:
    T = "curies.triples"
    w = cx.fn(f"{T}.write_triples", ob.id)
    r = cx.fn(f"{T}.read_triples", ob.id)
    ws, rs = cx.summary(w, ob.id), cx.summary(r, ob.id)
    order = ["subject", "predicate", "object"]

    def curie_of(t):
        # the `curie` property is inlined to prefix + ':' + identifier
        parts = concat_parts(t)
        if parts and len(parts) == 3 and op(parts[0]) == "attr" and parts[0][2] == "prefix" and is_const(parts[1], ":") and op(parts[2]) == "attr" and parts[2][2] == "identifier" and parts[0][1] == parts[2][1]:
            return parts[0][1]
        if op(t) == "attr" and t[2] == "curie":
            return t[1]  # the property not inlined (its two definitions differ textually); D3 judges the property itself
        return None

    wd = rd = None
    wcall = rcall = None
    for c, ev, ctx in ws.calls("writer"):
        wd = dict(c[3]).get("delimiter")
        wcall = c
    for c, ev, ctx in rs.calls("reader"):
        rd = dict(c[3]).get("delimiter")
        rcall = c
    if rcall is not None and rcall[2]:
        for x in subterms(rcall[2][0]):
            if op(x) == "call" and op(x[1]) == "attr" and x[1][2] in ("splitlines", "split"):
                ob.violate(
                    r.qualname,
                    r.where,
                    f"read_triples feeds csv.reader with `{show(rcall[2][0])[:50]}`: str.{x[1][2]} cuts lines at characters the csv writer does not quote (U+2028, U+2029, U+0085, \\x0b, \\x0c, \\x1c-\\x1e) and drops the line ends inside quoted cells, so written triples do not parse back",
                    witness="an identifier containing U+2028: the row is cut in two and unpacking fails",
                    detail="reader-source",
                )
    if wcall is not None and rcall is not None:
        from ..rules import csv_agreement

        csv_agreement(ob, w, r, wcall, rcall, "write_triples / read_triples")
    ob.site(f"{w.where} {w.qualname}", f"delimiter {show(wd) if wd else 'default'}")
    ob.site(f"{r.where} {r.qualname}", f"delimiter {show(rd) if rd else 'default'}")
    if wd != rd:
        ob.violate(w.qualname, w.where, f"write_triples uses delimiter {show(wd) if wd else 'default'} but read_triples {show(rd) if rd else 'default'}", detail="delimiter")
    rows = [c for c, ev, ctx in ws.calls("writerows")] + [c for c, ev, ctx in ws.calls("writerow") if ctx.loops]
    cols = None
    for c in rows:
        a = c[2][0] if c[2] else None
        # rows passed through a de-duplicating / re-ordering view: the file no longer holds the triples given
        while op(a) == "call" and (a[1] in (("builtin", "set"), ("builtin", "frozenset"), ("builtin", "sorted"), ("builtin", "list"), ("builtin", "tuple")) or a[1] == ("attr", ("builtin", "dict"), "fromkeys")) and a[2]:
            if a[1] in (("builtin", "set"), ("builtin", "frozenset")) or a[1] == ("attr", ("builtin", "dict"), "fromkeys"):
                ob.violate(w.qualname, w.where, f"write_triples writes `{show(a)[:50]}`: rows that occur more than once are written once, so reading the file back does not give the triples that were written (a triple given twice, or two triples that differ only in a reference's name)", witness="write_triples([t, t], path); read_triples(path) returns one triple", detail="rows-deduplicated")
            a = a[2][0]
        elt = a[2] if op(a) == "comp" else a
        tgt = a[3][0][0] if op(a) == "comp" else None
        if op(elt) in ("tuple", "list") and len(elt[1]) == 3:
            cols = []
            for x in elt[1]:
                b = curie_of(x)
                cols.append(b[2] if op(b) == "attr" else None)
    if cols is None:
        for c in rows:
            a = c[2][0] if c[2] else None
            if op(a) in ("tuple", "list") and len(a[1]) == 3:
                cols = []
                for x in a[1]:
                    b = curie_of(x)
                    cols.append(b[2] if op(b) == "attr" else None)
    if cols is None:
        ob.undecide("row construction of write_triples not recognised")
    elif cols != order:
        ob.violate(w.qualname, w.where, f"write_triples writes columns {cols}; expected {order} (as CURIEs)", detail="write-columns")
    hdr = {ev.line for c, ev, ctx in ws.calls("writerow") if not ctx.loops}
    if len(hdr) != 1:
        ob.violate(w.qualname, w.where, f"write_triples writes the header {len(hdr)} times", detail="header-count")
    # a `next(reader)` is counted where it is EVALUATED (a statement of its own or the value of a binding) - not where
    # the name bound to its result is mentioned again (a log message showing the header that was skipped)
    nexts = {ev.line for c, ev, ctx in rs.calls("next") if (ev.kind == "bind" and ev.b == c) or (ev.kind == "expr" and ev.a == c)} or {ev.line for c, ev, ctx in rs.calls("next")}
    if len(nexts) != 1:
        ob.violate(r.qualname, r.where, f"read_triples skips {len(nexts)} header rows; write_triples writes one", detail="header-skip")
    got = None
    for t, ctx in rs.returns():
        a = t
        if op(a) == "comp" and len(a[3]) == 1:
            tgt = a[3][0][0]
            elt = a[2]
            if op(elt) == "call" and op(tgt) == "tuple" and len(tgt[1]) == 3 and op(elt[1]) == "attr" and elt[1][2] == "from_curies" and len(elt[2]) == 3:
                got = [tgt[1].index(a_) if a_ in tgt[1] else None for a_ in elt[2]]
                _check_from_curies(cx, ob, T, order)
            elif op(elt) == "call" and op(tgt) == "tuple" and len(tgt[1]) == 3 and not (op(a[3][0][1]) == "call" and a[3][0][1][1] in (("ext", "csv.reader"), ("builtin", "list"), ("builtin", "iter")) and any(op(x) == "call" and x[1] == ("ext", "csv.reader") for x in subterms(a[3][0][1]))):
                # the triples are assembled from columns prepared beforehand, not from the rows of the reader
                ob.undecide(f"read_triples builds its triples from `{show(a[3][0][1])[:50]}`, not from the rows of the csv reader: how the columns were parsed is not followed")
                return
            elif op(elt) == "call" and op(tgt) == "tuple" and len(tgt[1]) == 3:
                kw = dict(elt[3])
                got = []
                for name in order:
                    v = kw.get(name)
                    arg = v[2][0] if op(v) == "call" and callee_name(v) == "from_curie" and v[2] else None
                    got.append(tgt[1].index(arg) if arg in tgt[1] else None)
                    if v is None or callee_name(v) != "from_curie":
                        ob.violate(r.qualname, r.where, f"read_triples does not parse `{name}` with from_curie", detail=f"parse:{name}")
            if a[3][0][2]:
                ob.violate(r.qualname, r.where, "read_triples filters rows", detail="filter")
    if got is None:
        # loop form: rows appended as Triple.from_curies(s, p, o, ...) / Triple(subject=..., ...)
        for c, ev, ctx in rs.calls():
            if not ctx.loops or op(ctx.loops[-1].a) != "tuple" or len(ctx.loops[-1].a[1]) != 3:
                continue
            tg = ctx.loops[-1].a[1]
            if op(c[1]) == "attr" and c[1][2] == "from_curies" and len(c[2]) == 3:
                got = [tg.index(a) if a in tg else None for a in c[2]]
                _check_from_curies(cx, ob, T, order)
            elif op(c[1]) == "cls" and c[1][1].endswith(".Triple"):
                kw = dict(c[3])
                got = []
                for name in order:
                    v = kw.get(name)
                    arg = v[2][0] if op(v) == "call" and callee_name(v) == "from_curie" and v[2] else None
                    got.append(tg.index(arg) if arg in tg else None)
    if got is None:
        ob.undecide("row parsing of read_triples not recognised")
    elif got != [0, 1, 2]:
        ob.violate(r.qualname, r.where, f"read_triples maps columns {got} to (subject, predicate, object); expected [0, 1, 2]", detail="read-columns")



@obligation("C15-X3", "no memoised derived values (cached_property / lru_cache) on Record, Reference or Converter objects, which are changed in place or copied with updates", floor=3)
def x3(cx: Cx, ob: Ob) -> None:
    from ..rules import cached_derivations

    cached_derivations(cx, ob)


@obligation("C15-D8", "text files AGREE: _get_file opens triples files for reading and for writing with the same encoding / errors arguments (plain and gzip)", floor=2)
def d8(cx: Cx, ob: Ob) -> None:
    from ..rules import open_args_agreement

    T = "curies.triples"
    open_args_agreement(cx, ob, [f"{T}._get_file", f"{T}.write_triples"], [f"{T}._get_file", f"{T}.read_triples"], "triples round trip")


@obligation("C15-D9", "JSON round trip: no serializer hook in the Reference hierarchy drops or rewrites a field by truthiness (an empty-string name is a value, None is the absence)", floor=3)
def d9(cx: Cx, ob: Ob) -> None:
    _validators_keep_required_fields(cx, ob)
    for ci in ref_classes(cx, ob):
        ob.site(f"src/curies/{ci.module.relpath}:{ci.node.lineno} {ci.qualname}", "serializer hooks")
        for m in ci.methods.values():
            if not any(d.split("(")[0].rsplit(".", 1)[-1] in ("model_serializer", "field_serializer") for d in m.decorators):
                continue
            s = cx.summary(m, ob.id)
            for ev, ctx in s.walk():
                if ev.kind != "guard":
                    continue
                t = ev.a
                fieldish = (op(t) == "call" and callee_name(t) == "get" and t[2] and is_const(t[2][0]) and isinstance(t[2][0][1], str)) or (op(t) == "item" and is_const(t[2]) and isinstance(t[2][1], str)) or (op(t) == "attr" and op(t[1]) == "param" and t[2] in ("name", "prefix", "identifier"))
                if fieldish:
                    ob.violate(
                        m.qualname,
                        where(m, ev.line),
                        f"{ci.name}.{m.name} decides by the truth value of `{show(t)[:40]}`: an empty string is treated like a missing value, so the serialised form does not validate back to an equal object",
                        witness="NamedReference(prefix='a', identifier='1', name='') dumps without 'name' and fails to validate",
                        detail="serializer-truthiness",
                    )


def _validators_keep_required_fields(cx: Cx, ob: Ob) -> None:
    """An (after-mode) field validator is inherited together with the field; pydantic does not re-check what it
    returns.  One that can return None for a field that a SUBCLASS re-declares as required and not Optional puts None
    where the subclass promises a string - `NamedReference(.., name='')` then carries no name, and its JSON form no
    longer validates back."""
    import ast

    classes = ref_classes(cx, ob)
    for ci in classes:
        for m in ci.methods.values():
            decos = [d for d in m.node.decorator_list if isinstance(d, ast.Call) and ast.unparse(d.func).rsplit(".", 1)[-1] == "field_validator"]
            for d in decos:
                mode = next((k.value.value for k in d.keywords if k.arg == "mode" and isinstance(k.value, ast.Constant)), "after")
                fields = [a.value for a in d.args if isinstance(a, ast.Constant) and isinstance(a.value, str)]
                if mode != "after" or not fields:
                    continue

                def may_be_none(e) -> bool:
                    if isinstance(e, ast.Constant):
                        return e.value is None
                    if isinstance(e, ast.BoolOp) and isinstance(e.op, ast.Or):
                        return may_be_none(e.values[-1])
                    if isinstance(e, ast.IfExp):
                        return may_be_none(e.body) or may_be_none(e.orelse)
                    return False

                rets = [r for r in ast.walk(m.node) if isinstance(r, ast.Return) and r.value is not None and may_be_none(r.value)]
                if not rets:
                    continue
                for sub in classes:
                    if sub is ci or ci not in cx.model.bases(sub):
                        continue
                    for f in fields:
                        ann, default = sub.fields.get(f, (None, None))
                        if ann is None:
                            continue
                        txt = ast.unparse(ann)
                        # `= Field(..., description=..)` (Ellipsis: required) or no default at all
                        required = default is None or (isinstance(default, ast.Call) and ast.unparse(default.func).rsplit(".", 1)[-1] == "Field" and ((default.args and isinstance(default.args[0], ast.Constant) and default.args[0].value is Ellipsis) or (not default.args and not any(k.arg in ("default", "default_factory") for k in default.keywords))))
                        if "None" in txt or "Optional" in txt or not required:
                            continue
                        ob.site(f"src/curies/{ci.module.relpath}:{m.node.lineno} {m.qualname}", f"validator of {f!r}, inherited by {sub.name} where {f}: {txt}")
                        body_txt = ast.unparse(m.node)
                        # `if cls.model_fields[F].is_required(): return <the value as given>` in front of everything else:
                        # where the field is required the validator is the identity
                        value_param = m.node.args.args[1].arg if len(m.node.args.args) > 1 else None
                        first = next((st for st in m.node.body if not (isinstance(st, ast.Expr) and isinstance(st.value, ast.Constant))), None)
                        if (
                            isinstance(first, ast.If)
                            and ast.unparse(first.test) in (f"cls.model_fields['{f}'].is_required()", f'cls.model_fields["{f}"].is_required()')
                            and len(first.body) == 1
                            and isinstance(first.body[0], ast.Return)
                            and isinstance(first.body[0].value, ast.Name)
                            and first.body[0].value.id == value_param
                            and not any(r in ast.walk(first) for r in rets)
                        ):
                            continue
                        if "model_fields" in body_txt or "is_required" in body_txt or "__name__" in body_txt or "issubclass" in body_txt:
                            ob.undecide(f"{m.qualname} can return None for {f!r} and looks at the class it runs for: whether that keeps {sub.name}.{f} (declared `{txt}`) a string is not followed")
                            continue
                        ob.violate(
                            m.qualname,
                            where(m, rets[0].lineno),
                            f"{ci.name}.{m.name} (field validator of {f!r}, run after the type check and inherited by {sub.name}) can return None (`{ast.unparse(rets[0])[:50]}`), but {sub.name} declares `{f}: {txt}` - required, not Optional: pydantic does not check a validator's result, so a {sub.name} can now hold {f}=None; it dumps to JSON with null and that JSON does not validate back to an equal object",
                            witness=f"{sub.name}(prefix='a', identifier='1', {f}='').{f} is None; {sub.name}.model_validate_json(x.model_dump_json()) raises",
                            detail=f"validator-none-for-required:{sub.name}.{f}",
                        )


@obligation("C15-X12", "def-use lints over the files this property is anchored in (api.py, triples.py): no one-shot iterator (generator expression, map, filter, zip, iter, reversed, enumerate, generator call) bound to a name is consumed twice or inside a loop that starts after its creation; no mutable default argument is mutated, stored or returned; no binary search over a sequence that is not kept sorted; no container resized inside the loop that iterates it; no Iterable parameter consumed twice before it is materialised; itertools.groupby only over input sorted by the grouping key", floor=1)
def x12(cx: Cx, ob: Ob) -> None:
    from ..rules import package_lints

    package_lints(cx, ob, {'api.py', 'triples.py'})


@obligation("C15-X6", "LOOKUP None-discipline (shared with C02-D3): validation against a converter goes through standardize_prefix, whose lookup result is tested with `is None`, never by truthiness - the empty prefix '' (rdflib's default namespace) is a registered prefix like any other and references under it must validate", floor=40)
def x6(cx: Cx, ob: Ob) -> None:
    from ..rules import scan_none_discipline
    from .c02 import none_scope

    scan_none_discipline(cx, ob, none_scope(cx))
