"""C17 - the resolver redirects exactly where expand points, on both web frameworks."""

from __future__ import annotations

import ast
import pathlib
import re

from ..analyses.relang import Alphabet, Lang, Unsupported, complement, inter, minus, witness
from ..report import Cx, Ob, describe, obligation
from ..rules import API, where
from ..summ import describe_path
from ..terms import callee_name, concat_parts, is_const, op, show, subterms

describe(
    "C17",
    "other",
    "Route-language inclusion (RELANG): the two route templates are extracted from the decorators, instantiated per delimiter, translated "
    "with the frameworks' converter regex tables and checked to contain every required path /P d I (P non-empty without '/' and d, I "
    "non-empty '/'-separated segments possibly containing d); the pair handed to expand_pair is the first-occurrence split (prefix group "
    "cannot contain d, or the handler re-splits with _split(..., sep=converter.delimiter)); both handlers agree on expand_pair without "
    "flags, None -> FAILURE_CODE (422), anything else -> 302 redirect.",
    ["CPython ast", "werkzeug converter regexes: <x> = [^/]+, <path:x> = [^/].*?", "starlette convertor regexes: {x} = [^/]+, {x:path} = .*", "flask.redirect defaults to 302; starlette RedirectResponse defaults to 307"],
    ["URL-path-safe characters only (no control characters)"],
    ["framework matching internals beyond the regex model", "URL normalisation", "empty identifiers"],
)

RS = "curies.resolver_service"
WERKZEUG = {None: "[^/]+", "default": "[^/]+", "string": "[^/]+", "path": "[^/].*?"}
STARLETTE = {None: "[^/]+", "str": "[^/]+", "path": ".*"}
SITE = pathlib.Path("/venv/lib/python3.12/site-packages")


def installed_regex(relpath: str, cls: str) -> str | None:
    """Read ``regex = "..."`` of a converter class from the installed framework source (no import)."""
    p = SITE / relpath
    if not p.exists():
        return None
    try:
        tree = ast.parse(p.read_text())
    except SyntaxError:
        return None
    for n in ast.walk(tree):
        if isinstance(n, ast.ClassDef) and n.name == cls:
            for st in n.body:
                if isinstance(st, ast.Assign) and any(isinstance(t, ast.Name) and t.id == "regex" for t in st.targets) and isinstance(st.value, ast.Constant):
                    return st.value.value
    return None


def routes(cx: Cx, ob: Ob):
    """framework -> (factory fn, handler fn, template parts, decorator line)"""
    out = {}
    for fw, factory, method in (("flask", "get_flask_blueprint", "route"), ("fastapi", "get_fastapi_router", "get")):
        fn = cx.fn(f"{RS}.{factory}", ob.id)
        s = cx.summary(fn, ob.id)
        conv = ("param", fn.params[0].name)
        for ev, ctx in s.walk():
            if ev.kind == "expr" and op(ev.a) == "call" and callee_name(ev.a) in ("add_url_rule", "add_api_route") and ev.a[2]:
                # explicit registration instead of a decorator
                kw = dict(ev.a[3])
                view = kw.get("view_func") or kw.get("endpoint") or (ev.a[2][-1] if len(ev.a[2]) > 1 else None)
                tpl = ev.a[2][0]
                parts = concat_parts(tpl) or ([tpl] if is_const(tpl) else None)
                if parts is not None and op(view) == "closure":
                    norm = []
                    for p_ in parts:
                        if is_const(p_) and isinstance(p_[1], str):
                            norm.append(("lit", p_[1]))
                        elif p_ == ("attr", conv, "delimiter"):
                            norm.append(("delim", None))
                        else:
                            norm.append(("other", p_))
                    out[fw] = (fn, cx.model.functions.get(view[1]), norm, ev.line, ev.a)
                continue
            if ev.kind != "def":
                continue
            for d in ev.b:
                if op(d) == "call" and op(d[1]) == "attr" and d[1][2] in (method, "route", "api_route") and d[2]:
                    tpl = d[2][0]
                    parts = concat_parts(tpl) or ([tpl] if is_const(tpl) else None)
                    if parts is None:
                        ob.undecide(f"{fw}: route template `{show(tpl)[:60]}` not a string template")
                        continue
                    norm = []
                    for p in parts:
                        if is_const(p) and isinstance(p[1], str):
                            norm.append(("lit", p[1]))
                        elif p == ("attr", conv, "delimiter"):
                            norm.append(("delim", None))
                        else:
                            norm.append(("other", p))
                    handler = cx.model.functions.get(ev.a[1])
                    out[fw] = (fn, handler, norm, ev.line, d)
    return out


def to_regex(fw: str, parts, d: str):
    s = "".join(v if k == "lit" else d for k, v in parts)
    out = ""
    groups = []
    pos = 0
    if fw == "flask":
        it = re.finditer(r"<(?:(\w+):)?(\w+)>", s)
        table = WERKZEUG
        get = lambda m: (m.group(1), m.group(2))  # noqa: E731
    else:
        it = re.finditer(r"\{(\w+)(?::(\w+))?\}", s)
        table = STARLETTE
        get = lambda m: (m.group(2), m.group(1))  # noqa: E731
    for m in it:
        conv, name = get(m)
        if conv not in table:
            raise Unsupported(f"{fw} converter `{conv}`")
        out += re.escape(s[pos : m.start()]) + "(" + table[conv] + ")"
        groups.append((name, table[conv]))
        pos = m.end()
    out += re.escape(s[pos:])
    return out, groups


def delimiters(cx: Cx):
    return [":", "/"] if cx.tier == "quick" else [":", "/", "::", "_", "-", ".", "|"]


def alphabet_for(d: str) -> Alphabet:
    atoms = [[(47, 47)], [(10, 10)], [(0, 31)], [(127, 159)]] + [[(ord(ch), ord(ch))] for ch in d]
    return Alphabet(atoms)


def required_language(L: Lang, d: str):
    a = L.a
    bad = a.classes_of_intervals([(0, 31), (127, 159)])
    safe = a.all - bad
    slash = a.classes_of_chars("/")
    SAFE = L.star(safe)
    seg_chars = safe - slash
    SEG = inter(L.star(seg_chars), L.nonempty())
    P = inter(inter(SEG, L.free_of(d)), SAFE)
    I = L.concat(SEG, L.star_lang(L.concat(L.literal("/"), SEG))) if hasattr(L, "star_lang") else None
    return P, SEG, SAFE


def _star_of(L: Lang, d) -> object:
    """Kleene star of a DFA language."""
    from ..analyses.relang import Builder, minimise

    B = Builder(L.a)
    end = B.new()
    s, acc = B.embed(d)
    B.e(end, s)
    for q in acc:
        B.e(q, end)
    return minimise(B.lang_dfa(end, {end}))


def param_constraints(cx: Cx, ob: Ob, fn, handler, d: str, line: int) -> None:
    """FastAPI validates path parameters before the handler runs: a constraint narrower than the
    captured group answers FastAPI's own 422 for requests the library can resolve."""
    import ast as _ast

    from ..analyses.relang import collect_atoms
    from ..model import AnalysisError

    for p in handler.params:
        dflt = p.default
        if not isinstance(dflt, _ast.Call) or _ast.unparse(dflt.func).rsplit(".", 1)[-1] not in ("Path", "Query", "Param"):
            continue
        for kw in dflt.keywords:
            if kw.arg in ("pattern", "regex"):
                try:
                    pat = cx.model.fold(handler.module, kw.value)
                except AnalysisError as e:
                    ob.undecide(f"fastapi: validation pattern of `{p.name}` is not a foldable constant ({e.reason})")
                    continue
                if not isinstance(pat, str):
                    ob.undecide(f"fastapi: validation pattern of `{p.name}` is not a string")
                    continue
                import re._parser as _P

                atoms = [[(47, 47)], [(10, 10)], [(0, 31)], [(127, 159)]] + [[(ord(ch), ord(ch))] for ch in d]
                try:
                    collect_atoms(_P.parse(pat), atoms)
                    alpha = Alphabet(atoms)
                    L = Lang(alpha)
                    allowed = L.regex(pat, "search")
                except Exception as e:  # noqa: BLE001
                    ob.undecide(f"fastapi: validation pattern of `{p.name}` not analysable: {e}")
                    continue
                bad = alpha.classes_of_intervals([(0, 31), (127, 159)])
                safe = alpha.all - bad
                slash = alpha.classes_of_chars("/")
                SEG = inter(L.star(safe - slash), L.nonempty())
                need = SEG if p.name == "prefix" else inter(L.star(safe), L.nonempty())
                w = witness(minus(need, allowed))
                ob.site(f"{where(fn, line)} {handler.qualname}", f"d={d!r}: parameter `{p.name}` validated against {pat[:40]!r}")
                if w is not None:
                    ob.violate(
                        handler.qualname,
                        where(fn, dflt.lineno),
                        f"FastAPI validates path parameter `{p.name}` against {pat[:60]!r}, which rejects {alpha.word(w)!r}: requests whose {p.name} is known to the converter are answered by FastAPI's validation error instead of a redirect, and differently from Flask",
                        witness=f"shortest captured value not accepted: {alpha.word(w)!r} (e.g. prefixes starting with a digit such as '3dmet')",
                        detail=f"param-pattern:{p.name}",
                    )
            elif kw.arg == "max_length":
                ob.violate(handler.qualname, where(fn, dflt.lineno), f"FastAPI limits the length of path parameter `{p.name}`: longer known prefixes / identifiers are rejected before the handler runs", detail=f"param-max-length:{p.name}")
            elif kw.arg == "min_length":
                v = kw.value.value if isinstance(kw.value, _ast.Constant) else None
                if not isinstance(v, int):
                    ob.undecide(f"fastapi: min_length of `{p.name}` is not a literal")
                elif v > 1:
                    ob.violate(handler.qualname, where(fn, dflt.lineno), f"FastAPI requires path parameter `{p.name}` to have at least {v} characters: shorter known prefixes / identifiers are rejected before the handler runs", detail=f"param-min-length:{p.name}")


@obligation("C17-D1", "RELANG route languages: for every delimiter d, every required path /P d I (I with '/'-separated segments, possibly containing d) is matched by the Flask and by the FastAPI route", floor=4)
def d1(cx: Cx, ob: Ob) -> None:
    rts = routes(cx, ob)
    for fw in ("flask", "fastapi"):
        if fw not in rts:
            ob.undecide(f"{fw}: route decorator not found")
    # cross-check the converter tables against the installed framework sources
    for rel, cls, mine in (("werkzeug/routing/converters.py", "UnicodeConverter", WERKZEUG[None]), ("werkzeug/routing/converters.py", "PathConverter", WERKZEUG["path"]), ("starlette/convertors.py", "StringConvertor", STARLETTE[None]), ("starlette/convertors.py", "PathConvertor", STARLETTE["path"])):
        inst = installed_regex(rel, cls)
        if inst is not None and inst != mine:
            ob.undecide(f"installed {cls}.regex is {inst!r}, the analyser's table says {mine!r}")
    for d in delimiters(cx):
        alpha = alphabet_for(d)
        L = Lang(alpha)
        bad = alpha.classes_of_intervals([(0, 31), (127, 159)])
        safe = alpha.all - bad
        slash = alpha.classes_of_chars("/")
        SEG = inter(L.star(safe - slash), L.nonempty())
        PFX = inter(SEG, L.free_of(d))
        IDENT = L.concat(SEG, _star_of(L, L.concat(L.literal("/"), SEG)))
        required = L.concat(L.literal("/"), PFX, L.literal(d), IDENT)
        for fw, (fn, handler, parts, line, deco) in rts.items():
            if any(k == "other" for k, _ in parts):
                ob.undecide(f"{fw}: route template contains `{show([v for k, v in parts if k == 'other'][0])[:40]}`")
                continue
            if not any(k == "delim" for k, _ in parts):
                ob.violate(fn.qualname, where(fn, line), f"the {fw} route does not contain the converter's delimiter", detail="no-delimiter")
                continue
            try:
                rx, groups = to_regex(fw, parts, d)
                lang = L.regex(rx, "fullmatch")
            except Unsupported as e:
                ob.undecide(f"{fw}: {e}")
                continue
            ob.site(f"{where(fn, line)} {fn.qualname}", f"d={d!r}: route regex {rx!r}")
            w = witness(minus(required, lang))
            if w is not None:
                path = alpha.word(w)
                ob.violate(
                    fn.qualname,
                    where(fn, line),
                    f"the {fw} route does not match the request path {path!r} (delimiter {d!r}): identifiers containing '/' such as DOIs are answered 404 instead of being resolved",
                    witness=f"route regex {rx!r}; shortest required path not matched: {path!r}",
                    detail=f"route-misses:{'slash' if '/' in path[1:].split(d, 1)[-1] else 'other'}",
                )
            if fw == "fastapi" and handler is not None:
                param_constraints(cx, ob, fn, handler, d, line)
            names = [n for n, _ in groups]
            if names[:2] != ["prefix", "identifier"] or len(names) != 2:
                ob.violate(fn.qualname, where(fn, line), f"the {fw} route captures {names}; expected prefix then identifier", detail="groups")


def _converter_in_one_app_slot(cx: Cx, ob: Ob, rts) -> None:
    """A factory that parks ITS converter in one application-wide slot (``app.extensions[K]`` / ``app.config[K]`` with
    a constant K) for the handler to pick up: an application may host several resolvers (blueprints registered under
    different URL prefixes, each built from its own converter) - they all write the same slot, and every handler
    answers from the converter that was registered last."""
    import ast as _ast

    for fw, (fn, handler, parts, line, deco) in rts.items():
        if fn is None or not fn.params:
            continue
        conv = fn.params[0].name
        for n in _ast.walk(fn.node):
            if not (isinstance(n, _ast.Assign) and len(n.targets) == 1 and isinstance(n.value, _ast.Name) and n.value.id == conv):
                continue
            t = n.targets[0]
            if not (isinstance(t, _ast.Subscript) and isinstance(t.value, _ast.Attribute) and t.value.attr in ("extensions", "config")):
                continue
            k = t.slice
            constant_key = isinstance(k, _ast.Constant) or (isinstance(k, _ast.Name) and k.id in fn.module.constants and isinstance(fn.module.constants[k.id], _ast.Constant))
            if not constant_key:
                continue
            # ... and the handler really answers from that slot (a converter merely published there harms nobody)
            hnode = handler.node if handler is not None else None
            reads = hnode is not None and any(isinstance(r, _ast.Subscript) and isinstance(r.ctx, _ast.Load) and isinstance(r.value, _ast.Attribute) and r.value.attr == t.value.attr and _ast.unparse(r.slice) == _ast.unparse(k) for r in _ast.walk(hnode))
            if not reads:
                continue
            ob.violate(
                fn.qualname,
                where(fn, n.lineno),
                f"{fn.name} keeps its converter in `{_ast.unparse(t)[:60]}` - ONE slot per application, under a constant key - and the handler answers from there: two resolvers built from different converters and registered on the same application share the slot, so requests to the first are resolved with the converter of the one registered last",
                witness="app.register_blueprint(get_flask_blueprint(c1), url_prefix='/a'); app.register_blueprint(get_flask_blueprint(c2), url_prefix='/b', name='b'): GET /a/<curie of c1 only> -> 422",
                detail="converter-in-app-slot",
            )


@obligation("C17-D2", "split = first delimiter: the pair handed to expand_pair is the first-occurrence split of the request path (prefix group cannot contain d, or the handler re-splits with _split(prefix + d + identifier, sep=converter.delimiter))", floor=2)
def d2(cx: Cx, ob: Ob) -> None:
    rts = routes(cx, ob)
    _converter_in_one_app_slot(cx, ob, rts)
    for fw, (fn, handler, parts, line, deco) in rts.items():
        if handler is None:
            ob.undecide(f"{fw}: handler function not found")
            continue
        s = cx.summary(handler, ob.id)
        conv = ("param", fn.params[0].name)
        calls = [(c, ev, cctx) for c, ev, cctx in s.calls("expand_pair") if op(c[1]) == "attr" and c[1][1] == conv]
        if not calls:
            ob.undecide(f"{fw}: handler does not call converter.expand_pair")
            continue
        # a helper that repairs the greedy prefix group branch by branch: every branch must be the first-delimiter split
        P_, I_ = ("param", "prefix"), ("param", "identifier")
        dterm_ = ("attr", conv, "delimiter")
        branchy = [x for x in calls if op(x[0][2][0] if x[0][2] else None) == "item" and callee_name(x[0][2][0][1]) == "partition" and op(x[0][2][0][1][1]) == "attr" and x[0][2][0][1][1][1] == P_]
        if branchy and len(branchy) == len(calls):
            okall = True
            for c, ev, cctx in calls:
                a, b = (list(c[2]) + [None, None])[:2]
                Pp = a[1]
                found_t = any(g.kind == "guard" and g.a == ("item", Pp, ("const", 1)) and g.b is True for g in cctx.guards)
                found_f = any(g.kind == "guard" and g.a == ("item", Pp, ("const", 1)) and g.b is False for g in cctx.guards)
                ob.site(f"{where(handler, ev.line)} {handler.qualname}", f"expand_pair({show(a)[:40]}, {show(b)[:50]})")
                good = Pp[2] == (dterm_,) and is_const(a[2], 0) and ((found_t and concat_parts(b) == [("item", Pp, ("const", 2)), dterm_, I_]) or (found_f and b == I_))
                if not good:
                    okall = False
                    ob.violate(
                        handler.qualname,
                        where(handler, ev.line),
                        f"the {fw} handler repairs the greedy prefix group with `{show(b)[:60]}` on a branch that is not decided by whether the delimiter was FOUND in the group: when the group ends with the delimiter the swallowed part is empty and the delimiter that belongs to the identifier is dropped",
                        witness="GET /GO::a must expand ('GO', ':a'), not ('GO', 'a')",
                        detail="resplit-shape",
                    )
            if okall:
                ob.site(f"{handler.where} {handler.qualname}", "branch-wise re-split at the first delimiter of the prefix group")
            continue
        c, ev, _ = calls[0]
        a, b = (list(c[2]) + [None, None])[:2]
        ob.site(f"{where(handler, ev.line)} {handler.qualname}", f"expand_pair({show(a)[:50]}, {show(b)[:50]})")
        P, I = ("param", "prefix"), ("param", "identifier")
        resplit = False
        if op(a) == "item" and op(b) == "item" and a[1] == b[1] and is_const(a[2], 0) and is_const(b[2], 2) and op(a[1]) == "call" and callee_name(a[1]) == "partition" and op(a[1][1]) == "attr":
            # (prefix + d + identifier).partition(d): head and tail of the first-occurrence split (d occurs: it was just inserted)
            S = a[1]
            if concat_parts(S[1][1]) == [P, ("attr", conv, "delimiter"), I] and S[2] == (("attr", conv, "delimiter"),) and not S[3]:
                resplit = True
            else:
                ob.violate(handler.qualname, where(handler, ev.line), f"the {fw} handler re-splits `{show(S[1][1])[:50]}` at `{show(S[2][0])[:30] if S[2] else ''}`; expected prefix + converter.delimiter + identifier split at converter.delimiter", detail="resplit-shape")
                continue
        elif op(a) == "item" and is_const(a[2], 0) and op(a[1]) == "call" and callee_name(a[1]) == "partition" and op(a[1][1]) == "attr" and op(b) == "call" and callee_name(b) == "removeprefix" and op(b[1]) == "attr" and b[1][1] == a[1][1][1] and len(b[2]) == 1:
            # head = J.partition(d)[0], tail = J.removeprefix(head + d): the first-occurrence split again (d occurs in J)
            S = a[1]
            J = S[1][1]
            cut = concat_parts(b[2][0])
            dterm = ("attr", conv, "delimiter")
            # converter.format_curie(p, i) is p + converter.delimiter + i (C01-D4 checks that join)
            joined_ok = concat_parts(J) == [P, dterm, I] or J == ("call", ("attr", conv, "format_curie"), (P, I), ())
            cut_ok = cut in ([a, dterm], [a, ("item", S, ("const", 1))])
            if joined_ok and S[2] == (dterm,) and cut_ok:
                resplit = True
            else:
                ob.violate(handler.qualname, where(handler, ev.line), f"the {fw} handler re-splits `{show(J)[:40]}` into `{show(a)[:30]}` / `{show(b)[:40]}`; expected the parts of prefix + converter.delimiter + identifier at the first delimiter", detail="resplit-shape")
                continue
        elif op(a) == "item" and op(b) == "item" and a[1] == b[1] and is_const(a[2], 0) and is_const(b[2], 1):
            S = a[1]
            if op(S) == "call" and S[1] == ("func", f"{API}._split") and S[2]:
                joined = concat_parts(S[2][0])
                sep = dict(S[3]).get("sep")
                if joined == [P, ("attr", conv, "delimiter"), I] and sep == ("attr", conv, "delimiter"):
                    resplit = True
                else:
                    ob.violate(handler.qualname, where(handler, ev.line), f"the {fw} handler re-splits `{show(S[2][0])[:50]}` with sep={show(sep) if sep else 'default'}; expected prefix + converter.delimiter + identifier split at converter.delimiter", detail="resplit-shape")
                    continue
            elif op(S) == "call" and callee_name(S) == "partition":
                ob.undecide(f"{fw}: handler re-splits with partition (not through _split)")
                continue
        elif (a, b) == (P, I):
            resplit = False
        else:
            ob.violate(handler.qualname, where(handler, ev.line), f"the {fw} handler expands ({show(a)[:30]}, {show(b)[:30]}), not the (prefix, identifier) of the request", detail="pair")
            continue
        if resplit:
            continue
        for d in delimiters(cx):
            alpha = alphabet_for(d)
            L = Lang(alpha)
            try:
                rx, groups = to_regex(fw, parts, d)
                pg = L.regex(groups[0][1], "fullmatch")
            except (Unsupported, IndexError) as e:
                ob.undecide(f"{fw}: {e}")
                continue
            w = witness(inter(pg, L.contains(d)))
            if w is not None:
                ob.violate(
                    handler.qualname,
                    where(handler, ev.line),
                    f"on {fw} the prefix capture group can contain the delimiter {d!r} and the handler does not re-split: the request is cut at the LAST delimiter, not the first as everywhere else in the library",
                    witness=f"GET /a{d}b{d}c -> prefix 'a{d}b', identifier 'c' -> unknown prefix -> 422, although expand('a{d}b{d}c') resolves prefix 'a'",
                    detail="last-delimiter-split",
                )
                break


def _expansion_error_handled(cx: Cx, factory, handler) -> bool:
    """Is ExpansionError (or a class it derives from) caught around the handler: a try/except in the handler, or
    an error handler registered in the factory (``@bp.errorhandler(E)``, ``@app.exception_handler(E)``,
    ``add_exception_handler(E, ..)`` / ``register_error_handler(E, ..)``)?"""
    caught_ok = {"ExpansionError", "ConversionError", "ValueError", "Exception", "BaseException"}

    def short(e) -> str:
        return ast.unparse(e).rsplit(".", 1)[-1]

    for n in ast.walk(handler.node):
        if isinstance(n, ast.Try):
            for h in n.handlers:
                types = [] if h.type is None else (h.type.elts if isinstance(h.type, ast.Tuple) else [h.type])
                if h.type is None or any(short(x) in caught_ok for x in types):
                    return True
    for n in ast.walk(factory.node):
        if isinstance(n, ast.Call) and isinstance(n.func, ast.Attribute) and n.func.attr in ("errorhandler", "exception_handler", "add_exception_handler", "register_error_handler") and n.args and short(n.args[0]) in caught_ok:
            return True
    return False


@obligation("C17-D3", "sibling AGREE: both handlers call converter.expand_pair(prefix, identifier) without flags, answer FAILURE_CODE (= 422) for None and a 302 redirect to the expansion otherwise", floor=4)
def d3(cx: Cx, ob: Ob) -> None:
    rts = routes(cx, ob)
    mod = cx.model.module(RS)
    try:
        fc = cx.model.const_value(mod, "FAILURE_CODE")
    except Exception:  # noqa: BLE001
        fc = None
    ob.site(f"src/curies/resolver_service.py {RS}.FAILURE_CODE", f"= {fc!r}")
    if fc != 422:
        ob.violate(f"{RS}.FAILURE_CODE", "src/curies/resolver_service.py", f"FAILURE_CODE is {fc!r}; unknown prefixes must answer 422", detail="failure-code")
    eafp: set = set()
    for fw, (fn, handler, parts, line, deco) in rts.items():
        if handler is None:
            continue
        s = cx.summary(handler, ob.id)
        conv = ("param", fn.params[0].name)
        calls = [c for c, ev, _ in s.calls("expand_pair") if op(c[1]) == "attr" and c[1][1] == conv]
        for c in calls[:1]:
            ep = cx.model.functions.get("curies.api.Converter.expand_pair")
            nondefault = []
            for k, v in c[3]:
                prm = ep.param(k) if ep is not None and k is not None else None
                dflt = prm.default.value if prm is not None and isinstance(prm.default, ast.Constant) else ("?",)
                if not (is_const(v) and v[1] == dflt and type(v[1]) is type(dflt)):
                    nondefault.append(k)
            if nondefault == ["strict"] and is_const(dict(c[3]).get("strict"), True) and _expansion_error_handled(cx, fn, handler):
                # the other protocol: the strict call raises for unknown prefixes and an error handler (registered on
                # the app / a try around the call) turns ExpansionError into the failure answer.  Which answer that
                # is, is the registered handler's business and is not followed here.
                ob.undecide(f"the {fw} handler resolves with expand_pair(strict=True) and leaves unknown prefixes to an ExpansionError handler: the None-test protocol this rule reads is not used")
                eafp.add(fw)
            elif nondefault == ["strict"] and is_const(dict(c[3]).get("strict"), True) and any(
                g.kind == "guard" and any(op(x) == "cmp" and x[1] in ("in", "not in") and any(y == conv for y in subterms(x[3])) for x in subterms(g.a)) for e2, c2 in s.walk() for g in (*c2.guards, e2)
            ):
                # a third protocol: the handler first asks the converter whether it knows the prefix (a membership test
                # on one of its views) and expands strictly only then.  That the view asked holds exactly the names
                # expand_pair resolves is a statement about that view, not a shape of the handler
                views = [x[3] for e2, c2 in s.walk() for g in (*c2.guards, e2) if g.kind == "guard" for x in subterms(g.a) if op(x) == "cmp" and x[1] in ("in", "not in") and any(y == conv for y in subterms(x[3]))]
                canonical_only = [v for v in views if any(op(y) == "call" and op(y[1]) == "attr" and y[1][1] == conv and y[1][2] == "get_prefixes" and not is_const(dict(y[3]).get("include_synonyms"), True) and not (y[2] and is_const(y[2][0], True)) for y in subterms(v)) or any(op(y) == "attr" and y[1] == conv and y[2] == "bimap" for y in subterms(v))]
                full = [v for v in views if any(op(y) == "call" and op(y[1]) == "attr" and y[1][1] == conv and y[1][2] == "get_prefixes" and (is_const(dict(y[3]).get("include_synonyms"), True) or (y[2] and is_const(y[2][0], True))) for y in subterms(v)) or any(op(y) == "attr" and y[1] == conv and y[2] in ("prefix_map", "synonym_to_prefix") for y in subterms(v))]
                if canonical_only:
                    ob.violate(
                        handler.qualname,
                        handler.where,
                        f"the {fw} handler refuses every prefix that is not in `{show(canonical_only[0])[:50]}`, a view of the CANONICAL prefixes only: a registered prefix synonym, which expand_pair resolves, is answered {fc} instead of the redirect",
                        witness="Record(prefix='CHEBI', prefix_synonyms=['chebi'], ..): GET /chebi:138488 is refused, converter.expand('chebi:138488') is not None",
                        detail="synonym-refused",
                    )
                elif full and len(full) == len(views):
                    ob.site(f"{handler.where} {handler.qualname}", f"{fw}: prefix looked up among all prefixes and synonyms, then expanded strictly")
                else:
                    ob.undecide(f"the {fw} handler decides on a membership test of the prefix in a view of the converter and then calls expand_pair(strict=True): that the view holds exactly the prefixes expand_pair resolves (synonyms included) is not decided here")
                eafp.add(fw)
            elif nondefault:
                ob.violate(handler.qualname, handler.where, f"the {fw} handler passes {nondefault} to expand_pair with non-default values: the answer differs from expand()", detail="flags")
        if fw in eafp:
            continue
        # other converter methods the handler calls (to word the 422 answer) must not raise
        from ..analyses.mode import Mode

        mode = Mode(cx)
        for c, ev, _ in s.calls():
            if op(c[1]) == "attr" and c[1][1] == conv and c[1][2] not in ("expand_pair", "delimiter"):
                callee = cx.model.find_method(cx.model.cls("curies.api.Converter", ob.id), c[1][2])
                if callee is None:
                    continue
                ob.site(f"{where(handler, ev.line)} {handler.qualname}", f"{fw}: calls converter.{c[1][2]}(...)")
                for A2 in mode.callee_assignments(callee, c, {}):
                    for e in mode.analyse(callee, A2).raises:
                        ob.violate(
                            handler.qualname,
                            where(handler, ev.line),
                            f"the {fw} handler calls converter.{c[1][2]}({', '.join(k + '=' + show(v) for k, v in c[3] if k)}) on its way to the 422 answer, and that call can raise {e.cls} ({' / '.join(str(v) for v in e.via) or e.origin}): the request is answered 500 instead of 422",
                            witness="an app built from Converter([]) (filled later with add_prefix) and any unknown prefix",
                            detail=f"failure-path-raises:{e.cls}",
                        )
        if not calls:
            continue
        loc = calls[0]
        fail = succ = False
        outcomes = list(s.outcomes())
        # (a) the only reason to answer FAILURE_CODE is that expand_pair returned None: a refusal decided on the
        #     prefix / identifier themselves answers 422 for CURIEs that expand() resolves
        for o, ctx in outcomes:
            if o is None:
                continue
            t = o[1]
            is_fail_answer = op(t) == "call" and callee_name(t) in ("abort", "HTTPException") and any(x == ("gconst", RS, "FAILURE_CODE") or is_const(x, 422) for x in subterms(t))
            if not is_fail_answer:
                continue
            tied = any(g.kind == "guard" and any(x == loc or (op(x) == "call" and op(x[1]) == "attr" and x[1][1] == conv and x[1][2] == "expand_pair") for x in subterms(g.a)) for g in ctx.guards)
            if not tied:
                own = [g for g in ctx.guards if g.kind == "guard" and any(op(x) in ("bv", "param") and x != conv for x in subterms(g.a))]
                ob.violate(
                    handler.qualname,
                    where(handler, o[2]),
                    f"the {fw} handler answers {show(t)[:40]} when `{('' if own[-1].b else 'not ') + show(own[-1].a)[:50] if own else '?'}` - a refusal of its own, not tied to expand_pair returning None: CURIEs that converter.expand resolves are answered 422",
                    witness="GET /<known prefix>:a..b answers 422 although expand gives a URI",
                    detail="extra-failure",
                )
        # (b) on the way to the failure answer nothing may raise: `xs[0]` of a list that is empty for a converter
        #     without records (close matches, sorted prefixes) turns the 422 into a 500
        for ev, ctx in s.walk():
            on_fail = any(g.kind == "guard" and op(g.a) == "cmp" and (g.a[2] == loc or (op(g.a[2]) == "call" and op(g.a[2][1]) == "attr" and g.a[2][1][1] == conv and g.a[2][1][2] == "expand_pair")) and is_const(g.a[3], None) and ((g.a[1] in ("is", "==")) == g.b) for g in ctx.guards)
            if not on_fail:
                continue
            for t in (ev.a, ev.b):
                if not isinstance(t, tuple):
                    continue
                safe = {y[2] for y in subterms(t) if op(y) == "ifexp" and op(y[2]) == "item" and y[1] == y[2][1]} | {y[3] for y in subterms(t) if op(y) == "ifexp" and op(y[3]) == "item" and y[1] == ("not", y[3][1])}
                for x in subterms(t):
                    if x in safe or (op(x) == "item" and any(g.kind == "guard" and g.a == x[1] and g.b is True for g in ctx.guards)):
                        continue  # taken only when the list is not empty
                    if op(x) == "item" and is_const(x[2]) and isinstance(x[2][1], int) and op(x[1]) == "call" and (x[1][1] in (("builtin", "sorted"), ("builtin", "list")) or (op(x[1][1]) == "ext" and x[1][1][1] in ("difflib.get_close_matches", "re.findall"))):
                        ob.violate(
                            handler.qualname,
                            where(handler, ev.line),
                            f"the {fw} handler takes element {x[2][1]} of `{show(x[1])[:50]}` on its way to the 422 answer: for a converter without records (an app built first and filled later) the list is empty, IndexError is raised and the request is answered 500",
                            witness="an app built from Converter([]) and any prefix",
                            detail="failure-path-raises:IndexError",
                        )
        for o, ctx in outcomes:
            if o is None:
                continue
            none_guard = [g for g in ctx.guards if g.kind == "guard" and op(g.a) == "cmp" and g.a[2] == loc and is_const(g.a[3], None)]
            is_none = any(((g.a[1] in ("is", "==")) == g.b) for g in none_guard)
            t = o[1]
            lineno = o[2]
            if is_none:
                fail = True
                ob.site(f"{where(handler, lineno)} {handler.qualname}", f"{fw} failure: {show(t)[:60]}")
                code = None
                if op(t) == "call" and callee_name(t) == "abort" and t[2]:
                    code = t[2][0]
                elif op(t) == "call" and callee_name(t) == "HTTPException":
                    code = dict(t[3]).get("status_code") or (t[2][0] if t[2] else None)
                elif op(t) == "call" and callee_name(t) in ("Response", "JSONResponse", "make_response"):
                    code = dict(t[3]).get("status") or dict(t[3]).get("status_code") or (t[2][1] if len(t[2]) > 1 else None)
                if code is None:
                    ob.undecide(f"{fw}: failure answer `{show(t)[:50]}` not recognised")
                elif code != ("gconst", RS, "FAILURE_CODE") and not is_const(code, 422):
                    ob.violate(handler.qualname, where(handler, lineno), f"the {fw} handler answers {show(code)} for unknown prefixes, not FAILURE_CODE (422)", detail="failure-status")
            elif none_guard:
                succ = True
                ob.site(f"{where(handler, lineno)} {handler.qualname}", f"{fw} success: {show(t)[:60]}")
                if o[0] != "return":
                    ob.violate(handler.qualname, where(handler, lineno), f"the {fw} handler raises on success", detail="success-raise")
                    continue
                if fw == "flask":
                    if not (op(t) == "call" and t[1] == ("ext", "flask.redirect") and t[2][:1] == (loc,)):
                        ob.violate(handler.qualname, where(handler, lineno), f"the flask handler answers `{show(t)[:50]}`, not redirect(<expansion>)", detail="success-shape")
                    else:
                        code = dict(t[3]).get("code") or (t[2][1] if len(t[2]) > 1 else None)
                        if code is not None and not is_const(code, 302):
                            ob.violate(handler.qualname, where(handler, lineno), f"the flask handler redirects with status {show(code)}, not 302", detail="redirect-status")
                else:
                    if not (op(t) == "call" and callee_name(t) == "RedirectResponse" and (t[2][:1] == (loc,) or dict(t[3]).get("url") == loc)):
                        ob.violate(handler.qualname, where(handler, lineno), f"the fastapi handler answers `{show(t)[:50]}`, not RedirectResponse(<expansion>)", detail="success-shape")
                    else:
                        code = dict(t[3]).get("status_code") or (t[2][1] if len(t[2]) > 1 else None)
                        if code is None:
                            ob.violate(handler.qualname, where(handler, lineno), "the fastapi handler uses RedirectResponse's default status 307; Flask answers 302 for the same request", detail="redirect-status")
                        elif op(code) == "ext" and code[1].rsplit(".", 1)[-1] in ("HTTP_302_FOUND", "FOUND"):
                            pass  # starlette.status.HTTP_302_FOUND / http.HTTPStatus.FOUND
                        elif not is_const(code, 302):
                            ob.violate(handler.qualname, where(handler, lineno), f"the fastapi handler redirects with status {show(code)}, not 302", detail="redirect-status")
        if not fail:
            ob.violate(handler.qualname, handler.where, f"the {fw} handler has no failure answer for unknown prefixes", detail="no-failure")
        if not succ:
            ob.violate(handler.qualname, handler.where, f"the {fw} handler has no success answer", detail="no-success")


@obligation("C17-X2", "the resolver apps keep a reference to the converter (and may capture its tables): lookup tables are maintained in place by _index and never rebound after construction, and no query method writes converter state (shared with C05)", floor=5)
def x2(cx: Cx, ob: Ob) -> None:
    from ..rules import state_closure

    state_closure(cx, ob)


@obligation("C17-X7", "IDX (shared with C01/C02): the lookup tables consulted by expand_pair behind the resolver handlers hold every name of every record, unconditionally and completely, on the constructor path and in _index (converters built incrementally answer like freshly built ones)", floor=4)
def x7(cx: Cx, ob: Ob) -> None:
    from .c01 import check_table_roles

    check_table_roles(cx, ob, ["prefix_map", "synonym_to_prefix"])


@obligation("C17-X6", "LOOKUP None-discipline (shared with C02-D3): lookup results and str|None results are tested with `is None`, never by truthiness - the empty prefix, the empty URI prefix and the empty identifier are legitimate values", floor=40)
def x6(cx: Cx, ob: Ob) -> None:
    from ..rules import scan_none_discipline
    from .c02 import none_scope

    scan_none_discipline(cx, ob, none_scope(cx))


@obligation("C17-X12", "def-use lints over the files this property is anchored in (api.py, resolver_service.py): no one-shot iterator (generator expression, map, filter, zip, iter, reversed, enumerate, generator call) bound to a name is consumed twice or inside a loop that starts after its creation; no mutable default argument is mutated, stored or returned; no binary search over a sequence that is not kept sorted; no container resized inside the loop that iterates it; no Iterable parameter consumed twice before it is materialised; itertools.groupby only over input sorted by the grouping key", floor=1)
def x12(cx: Cx, ob: Ob) -> None:
    from ..rules import package_lints

    package_lints(cx, ob, {'api.py', 'resolver_service.py'})


@obligation("C17-X20", "expand_pair answers exactly as expand: it funnels into expand_reference with its own flags and adds no lookup rule of its own (shared with C02-D5/D6) - the handlers resolve through expand_pair", floor=3)
def x20(cx: Cx, ob: Ob) -> None:
    from .c02 import check_expand_reference, check_expand_wrappers

    check_expand_wrappers(cx, ob)
    check_expand_reference(cx, ob)


@obligation("C17-X5", "pairing (shared with C05-D4): every normally returning path of add_record merges or appends and then unconditionally re-indexes the changed record - the resolver looks prefixes up in prefix_map, which must not lag behind the records after a merge", floor=2)
def x5(cx: Cx, ob: Ob) -> None:
    from .c05 import check_add_record_pairing

    check_add_record_pairing(cx, ob)


@obligation("C17-D6", "the handlers ask the converter every time: no memo (lru_cache / cache) in front of a non-strict converter query, whose answer None for a prefix the converter learns later (add_prefix on the converter the app was built from) would be served for ever", floor=2)
def d6(cx: Cx, ob: Ob) -> None:
    rts = routes(cx, ob)
    for fw, (fn, handler, parts, line, deco) in rts.items():
        ob.site(f"{fn.where} {fn.qualname}", f"{fw}: memo scan")
        for n in ast.walk(fn.node):
            # lru_cache(...)(converter.method) / cache(converter.method)
            if isinstance(n, ast.Call) and n.args and isinstance(n.args[0], ast.Attribute) and isinstance(n.args[0].value, ast.Name) and n.args[0].value.id == fn.params[0].name:
                f = n.func
                head = f.func if isinstance(f, ast.Call) else f
                name = ast.unparse(head).rsplit(".", 1)[-1]
                if name in ("lru_cache", "cache"):
                    ob.violate(
                        fn.qualname,
                        f"src/curies/resolver_service.py:{n.lineno}",
                        f"{fn.name} wraps converter.{n.args[0].attr} in {name}: the memo also remembers the answer None, so a CURIE that was asked for before its prefix was added (converter.add_prefix on the converter the app was built from) is answered 422 for ever, while converter.expand resolves it",
                        witness="GET /x:1 -> 422; converter.add_prefix('x', ...); GET /x:1 -> still 422",
                        detail=f"memoised-query:{n.args[0].attr}",
                    )
            # @lru_cache on a local function that asks the converter non-strictly
            if isinstance(n, (ast.FunctionDef, ast.AsyncFunctionDef)) and n is not fn.node and any(ast.unparse(d.func if isinstance(d, ast.Call) else d).rsplit(".", 1)[-1] in ("lru_cache", "cache") for d in n.decorator_list):
                for c in ast.walk(n):
                    if isinstance(c, ast.Call) and isinstance(c.func, ast.Attribute) and isinstance(c.func.value, ast.Name) and c.func.value.id == fn.params[0].name:
                        strict = any(k.arg == "strict" and isinstance(k.value, ast.Constant) and k.value.value is True for k in c.keywords)
                        if not strict:
                            ob.violate(fn.qualname, f"src/curies/resolver_service.py:{c.lineno}", f"{fn.name} memoises `{ast.unparse(c)[:50]}`, which returns None for an unknown prefix: the miss is remembered after the converter has learnt the prefix", detail=f"memoised-query:{c.func.attr}")


@obligation("C17-X1", "OWN (shared with C10): the app factories resolve through the converter they are given - they do not build a private converter over the same Record objects, whose lookup tables would stay as they were when the app was built while the caller goes on adding prefixes to the original", floor=6)
def x1(cx: Cx, ob: Ob) -> None:
    from .c10 import check_no_aliasing

    check_no_aliasing(cx, ob)


@obligation("C17-X3", "no memoised derived values (cached_property / lru_cache) on Record, Reference or Converter objects (shared with C05): the resolver answers from the live converter - a memoised expand_pair (or any cached query result) keeps answering 'unknown prefix' after add_prefix, while expand knows it", floor=3)
def x3(cx: Cx, ob: Ob) -> None:
    from ..rules import cached_derivations

    cached_derivations(cx, ob)
