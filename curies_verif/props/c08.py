"""C08 - strict / passthrough / default modes differ only in how failure is reported."""

from __future__ import annotations

from ..analyses.mode import FLAGS, Esc, Mode, flag_assignments, strip_flags
from ..report import Cx, Ob, describe, obligation
from ..rules import CONV, component, where
from ..terms import NONE, concat_parts, is_const, op, show, subterms

describe(
    "C08",
    "other",
    "Mode-sensitive effect analysis (MODE) over the 14 functions of the quantifier, for every assignment of their boolean flags, "
    "propagated through resolved callees with the actual flag arguments: D1 no exception escapes when strict is false, D2 under "
    "strict only library classes with ValueError in their MRO escape, D3 the reachable return terms differ between modes only by "
    "None <-> raise <-> echo of the unmodified input (strict tested first), D4 success returns do not depend on the flags.",
    ["CPython ast", "pytrie longest_prefix_item raises KeyError on no match", "dict subscripting raises KeyError"],
    ["inputs are str", "no MemoryError-class exceptions", "subclasses overriding standardize_identifier are out of scope"],
    ["non-str inputs", "exceptions raised inside third-party code"],
)

TARGETS = [
    "compress",
    "expand",
    "compress_or_standardize",
    "expand_or_standardize",
    "standardize_prefix",
    "standardize_curie",
    "standardize_uri",
    "expand_pair",
    "expand_reference",
    "expand_all",
    "expand_pair_all",
    "parse",
    "parse_uri",
    "parse_curie",
]


def _attribution(cx: Cx, entry, e: Esc, targets) -> str:
    chain = [entry.qualname, *[v for v in e.via if isinstance(v, str) and v.startswith("curies.")], e.origin]
    tq = {f"{CONV}.{t}" for t in targets}
    inner = [q for q in chain if q in tq]
    return inner[-1] if inner else entry.qualname


def _kind(fn, t) -> str:
    if is_const(t, None) or (op(t) == "tuple" and t[1] and all(is_const(x, None) for x in t[1])):
        return "NONE"
    inputs = [p.name for p in fn.params if p.name not in FLAGS and p.name != fn.self_name]
    if op(t) == "param" and t[1] in inputs:
        return "ECHO"
    # re-join of a reference parameter (expand_reference)
    if op(t) == "call" and op(t[1]) == "attr" and t[1][2] == "format_curie" and len(t[2]) == 2:
        a, b = component(t[2][0]), component(t[2][1])
        if a and b and a[0] == b[0] and op(a[0]) == "param" and (a[1], b[1]) == (0, 1):
            return "ECHO"
    return "VALUE"


def _canon_val(t):
    """Success values compared across modes: d.get(k) on a path where it is not None is d[k]."""
    if not isinstance(t, tuple):
        return t
    if op(t) == "call" and op(t[1]) == "attr" and t[1][2] == "get" and len(t[2]) == 1 and not t[3]:
        return ("item", _canon_val(t[1][1]), _canon_val(t[2][0]))
    return tuple(_canon_val(x) if isinstance(x, tuple) else x for x in t)


def _unchanged_input(cx: Cx, fn, line: int) -> bool:
    """Is the input returned at ``line`` only where its parts were found equal to their converted counterparts
    (an "already in normal form" shortcut)?  Then the echo IS the success value."""
    s = cx.summary(fn)
    inputs = {("param", p.name) for p in fn.params if p.name not in FLAGS and p.name != fn.self_name}
    ctxs = [ctx for t, ctx in s.returns() if ctx.path.out is not None and ctx.path.out[2] == line and t in inputs]
    if not ctxs:
        return False

    def part_eq(g):
        if g.kind != "guard" or g.b is not True or op(g.a) != "cmp" or g.a[1] != "==":
            return False
        for x in (g.a[2], g.a[3]):
            if op(x) == "item" and op(x[1]) == "call" and op(x[1][1]) == "attr" and x[1][1][2] in ("partition", "split") and x[1][1][1] in inputs:
                return True
        return False

    return all(sum(1 for g in ctx.guards if part_eq(g)) >= 2 for ctx in ctxs)


def mode_rows(cx: Cx, names: list[str], ob_id: str):
    mode = Mode(cx)
    for name in names:
        fn = cx.fn(f"{CONV}.{name}", ob_id)
        rows = []
        for A in flag_assignments(fn):
            rows.append((A, mode.analyse(fn, A)))
        yield fn, rows


def check_no_raise(cx: Cx, ob: Ob, names: list[str]) -> None:
    hits: dict = {}
    for fn, rows in mode_rows(cx, names, ob.id):
        for A, res in rows:
            if A.get("strict", False):
                continue
            ob.site(f"{fn.where} {fn.qualname}", f"{A} raises={sorted({e.cls for e in res.raises})}")
            for e in res.raises:
                at = _attribution(cx, fn, e, names)
                hits.setdefault((at, e.cls, e.origin, e.line), set()).add((fn.name, tuple(sorted(A.items()))))
    for (at, cls, origin, line), entries in sorted(hits.items()):
        fns = sorted({n for n, _ in entries})
        pt = any(dict(a).get("passthrough") for _, a in entries)
        origin_fn = cx.model.functions.get(origin)
        ob.violate(
            at,
            where(origin_fn, line) if origin_fn else origin,
            f"{cls} raised in {origin.rsplit('.', 1)[-1]} can escape from {at.rsplit('.', 1)[-1]} although strict is false" + (" (also with passthrough=True, so bulk callers abort)" if pt else ""),
            witness=f"non-strict entry points reaching it (path-insensitive): {', '.join(fns)}",
            detail=f"escapes:{cls}",
        )


def check_strict_classes(cx: Cx, ob: Ob, names: list[str]) -> None:
    for fn, rows in mode_rows(cx, names, ob.id):
        for A, res in rows:
            if not A.get("strict", False):
                continue
            ob.site(f"{fn.where} {fn.qualname}", f"{A} raises={sorted({e.cls for e in res.raises})}")
            for e in res.raises:
                c = cx.model.class_by_short(e.cls)
                okc = c is not None and "ValueError" in cx.model.mro_names(c)
                if not okc:
                    at = _attribution(cx, fn, e, names)
                    origin_fn = cx.model.functions.get(e.origin)
                    ob.violate(
                        at,
                        where(origin_fn, e.line) if origin_fn else e.origin,
                        f"under strict=True {e.cls} can escape from {fn.name}; only the library's ValueError-derived conversion/standardisation errors may",
                        witness=f"raised in {e.origin} line {e.line} via {' -> '.join(str(v) for v in e.via) or fn.name}",
                        detail=f"foreign:{e.cls}",
                    )


def check_tails(cx: Cx, ob: Ob, names: list[str]) -> None:
    for fn, rows in mode_rows(cx, names, ob.id):
        by = {tuple(sorted(A.items())): res for A, res in rows}
        base_key = tuple(sorted({f: False for f in dict(rows[0][0])}.items()))
        base = by[base_key]
        base_vals = {_canon_val(strip_flags(t, {})) for t, _ in base.returns if _kind(fn, t) == "VALUE"}
        has_pt = fn.param("passthrough") is not None
        has_strict = fn.param("strict") is not None
        for A, res in rows:
            kinds = {}
            for t, line in res.returns:
                k_ = _kind(fn, t)
                if k_ == "ECHO" and _unchanged_input(cx, fn, line):
                    k_ = "UNCHANGED"  # the input returned where it already equals the converted form
                kinds.setdefault(k_, []).append((t, line))
            vals = {_canon_val(strip_flags(t, {})) for t, _ in kinds.get("VALUE", [])}
            ob.site(f"{fn.where} {fn.qualname}", f"{A} returns={sorted(kinds)}")
            strict = A.get("strict", False)
            pt = A.get("passthrough", False)
            label = ",".join(f"{k}={v}" for k, v in sorted(A.items()))
            if strict:
                for t, line in kinds.get("NONE", []):
                    ob.violate(fn.qualname, where(fn, line), f"`return None` is reachable under strict=True ({label}); strict must raise where the default returns None", detail="strict-returns-none")
                for t, line in kinds.get("ECHO", []):
                    ob.violate(fn.qualname, where(fn, line), f"the passthrough return is reachable under strict=True ({label}): passthrough is tested before strict", detail="passthrough-before-strict")
                if has_strict and not res.raises and (base_kinds_none(fn, base)):
                    ob.violate(fn.qualname, fn.where, f"under strict=True ({label}) no error can be raised although the default mode can return None", detail="strict-never-raises")
            elif pt:
                for t, line in kinds.get("NONE", []):
                    ob.violate(fn.qualname, where(fn, line), f"`return None` is reachable with passthrough=True ({label})", detail="passthrough-returns-none")
                if has_pt and "ECHO" not in kinds and base_kinds_none(fn, base):
                    ob.violate(fn.qualname, fn.where, f"with passthrough=True ({label}) the input is never returned unchanged although the default mode can return None", detail="passthrough-no-echo")
            else:
                for t, line in kinds.get("ECHO", []):
                    ob.violate(fn.qualname, where(fn, line), f"the input is echoed although passthrough is false ({label})", detail="echo-without-passthrough")
            if vals != base_vals:
                diff = sorted(show(x)[:70] for x in (vals ^ base_vals))
                ob.violate(fn.qualname, fn.where, f"success values differ between modes: ({label}) vs default", witness="; ".join(diff), detail=f"values-differ:{label}")


def base_kinds_none(fn, base) -> bool:
    return any(_kind(fn, t) == "NONE" for t, _ in base.returns)


@obligation("C08-D1", "MODE: with strict=False no exception can escape from any of the 14 conversion/standardisation functions (explicit raises in the reachable call graph + tabled implicit raisers)", floor=20)
def d1(cx: Cx, ob: Ob) -> None:
    check_no_raise(cx, ob, TARGETS)


@obligation("C08-D2", "MODE: under strict=True every escaping exception class is defined in curies and has ValueError in its MRO", floor=20)
def d2(cx: Cx, ob: Ob) -> None:
    check_strict_classes(cx, ob, TARGETS)


@obligation("C08-D3", "MODE tail shape: None unreachable under strict or passthrough; the echo of the unmodified input is reachable exactly under (not strict, passthrough); success values identical in all modes", floor=40)
def d3(cx: Cx, ob: Ob) -> None:
    check_tails(cx, ob, TARGETS)
    flags_only_report(cx, ob)
    delegated_echo(cx, ob)
    strict_only_failure(cx, ob)
    echo_builder_total(cx, ob)


def strict_only_failure(cx: Cx, ob: Ob) -> None:
    """``strict`` selects how a failure is REPORTED, not what fails: a ``raise`` taken only under strict=True must
    sit where the default mode answers None.  If the tests on the way to it (other than the flags) are all
    compatible with a default-mode path that returns a VALUE, the same input converts by default and raises under
    strict - and symmetrically for a value computed only when strict is off."""
    from ..rules import guard_atoms

    for name in TARGETS:
        fn = cx.fn(f"{CONV}.{name}", ob.id)
        if fn.param("strict") is None:
            continue
        s = cx.summary(fn, ob.id, full=True)
        outs = []
        for o, ctx in s.outcomes():
            if ctx.loops:
                continue
            atoms = guard_atoms([g for g in ctx.guards if g.kind == "guard"])
            flags = {a[1]: pol for a, pol in atoms if op(a) == "param" and a[1] in FLAGS}
            rest = {a: pol for a, pol in atoms if not (op(a) == "param" and a[1] in FLAGS)}
            outs.append((o, ctx, flags, rest))

        def compatible(r1, r2) -> bool:
            return all(r2.get(a, pol) == pol for a, pol in r1.items())

        for o, ctx, flags, rest in outs:
            if o is None or o[0] != "raise" or flags.get("strict") is not True or (len(o) > 3 and o[3]):
                continue
            if any(g.kind == "except" for g in ctx.path.events):
                continue  # the failure was found by the lookup raising: a test the value path passed
            for o2, ctx2, flags2, rest2 in outs:
                if flags2.get("strict") is True or flags2.get("passthrough") is True:
                    continue
                val = NONE if o2 is None else o2[1] if o2[0] == "return" else None
                if val is None or _kind(fn, val) != "VALUE":
                    continue
                if rest2.get(("cmp", "is", val, NONE)) is True or rest2.get(("cmp", "is not", val, NONE)) is False:
                    continue  # the value returned is known to be None on that path
                # the default path must not have taken a decision the raising path contradicts, and must be a path
                # that exists beside it (shares its last non-flag test or has none after it)
                if compatible(rest, rest2) and compatible(rest2, rest) and set(rest2) <= set(rest):
                    extra = [a for a in rest if a not in rest2]
                    ob.violate(
                        fn.qualname,
                        where(fn, o[2]),
                        f"{name} raises under strict=True after a test the default mode never makes (`{show(extra[0])[:60] if extra else 'none'}`) where the default call returns a value (line {o2[2] if o2 else '?'}): strict changes WHAT converts, not how failure is reported",
                        witness="a CURIE whose identifier does not fit the record's pattern: parse_curie(c) is a reference, parse_curie(c, strict=True) raises",
                        detail="strict-raises-on-success",
                    )
                    break


def echo_builder_total(cx: Cx, ob: Ob) -> None:
    """format_curie is what the passthrough tails of expand_pair / expand_reference hand back (the re-joined input)
    and what the success paths of compress / standardize_curie return: it has no failure mode of its own.  A path
    on which it answers None puts None into tails that promise a string (passthrough) or a value (strict)."""
    fn = cx.model.functions.get(f"{CONV}.format_curie")
    if fn is None:
        return
    s = cx.summary(fn, ob.id)
    ob.site(f"{fn.where} {fn.qualname}", "format_curie always returns a string")
    for t, ctx in s.returns():
        if is_const(t, None):
            line = ctx.path.out[2] if ctx.path.out else fn.node.lineno
            gs = [("" if g.b else "not ") + show(g.a)[:50] for g in ctx.guards if g.kind == "guard"]
            ob.violate(
                fn.qualname,
                where(fn, line),
                f"format_curie returns None when `{' and '.join(gs) or 'always'}`: expand_pair / expand_reference(passthrough=True) return that None instead of the input, and standardize_curie / compress_or_standardize return None under strict=True instead of raising",
                witness="expand_pair('obo:GO', '1', passthrough=True) is None for an unknown prefix containing the delimiter",
                detail="echo-builder-none",
            )
            break


def delegated_echo(cx: Cx, ob: Ob) -> None:
    """A function that hands a PARSED (standardised) form of its input to another conversion function together with
    its own ``passthrough`` relies on that function never reaching its passthrough tail: what the callee echoes is the
    standardised form, not the caller's input.  The callee's tail is out of reach for parsed references exactly when
    every path to it has found the reference's prefix missing from the lookup table (a parsed reference carries a
    stored prefix); a path that gets there after a successful lookup makes the caller answer with a string that is
    neither the conversion nor the input."""
    from ..rules import self_call

    for name in TARGETS:
        fn = cx.fn(f"{CONV}.{name}", ob.id)
        if fn.param("passthrough") is None:
            continue
        me = ("param", fn.self_name)
        inputs = {("param", p.name) for p in fn.params if p.name not in FLAGS and p.name != fn.self_name}
        s = cx.summary(fn, ob.id)
        for t, ctx in s.returns():
            if not (self_call(t, me) and t[1][2] in TARGETS):
                continue
            if dict(t[3]).get("passthrough") != ("param", "passthrough"):
                continue
            callee = cx.fn(f"{CONV}.{t[1][2]}", ob.id)
            line = ctx.path.out[2]
            for i, a in enumerate(t[2]):
                if a in inputs:
                    continue
                parsed = [c for c in subterms(a) if self_call(c, me) and c[1][2] in ("parse", "parse_curie", "parse_uri") and c[2] and c[2][0] in inputs]
                if not parsed or i + 1 >= len(callee.params):
                    continue
                cp = ("param", callee.params[i + 1].name)
                cme = ("param", callee.self_name)
                cs = cx.summary(callee, ob.id)
                for rt, rctx in cs.returns():
                    if _kind(callee, rt) != "ECHO":
                        continue
                    gs = [g for g in rctx.guards if g.kind == "guard"]
                    if not any(op(g.a) == "param" and g.a[1] == "passthrough" and g.b for g in gs):
                        continue

                    def lookup_failed(g) -> bool:
                        """The guard says: the reference's prefix was NOT found among the converter's names."""
                        a_, pol = g.a, g.b

                        def about_param(k) -> bool:
                            return any(x == cp for x in subterms(k))

                        if op(a_) == "cmp" and a_[1] in ("in", "not in"):
                            miss = (a_[1] == "not in") == bool(pol)
                            tab = a_[3]
                            while op(tab) == "call" and op(tab[1]) == "attr" and tab[1][2] in ("keys",):
                                tab = tab[1][1]
                            return miss and op(tab) == "attr" and tab[1] == cme and about_param(a_[2])
                        if op(a_) == "cmp" and is_const(a_[3], None) and a_[1] in ("is", "is not"):
                            x, want_none = a_[2], (a_[1] == "is") == bool(pol)
                        else:
                            return False
                        if not want_none or op(x) != "call" or op(x[1]) != "attr" or not x[2]:
                            return False
                        if x[1][2] == "get" and op(x[1][1]) == "attr" and x[1][1][1] == cme:
                            return about_param(x[2][0])
                        if x[1][1] == cme and x[1][2] in ("get_record", "standardize_prefix"):
                            return about_param(x[2][0])
                        return False

                    ob.site(f"{where(fn, line)} {fn.qualname}", f"hands {show(a)[:50]} to {callee.name}: its passthrough tail at line {rctx.path.out[2]}")
                    if not any(lookup_failed(g) for g in gs):
                        extra = [g for g in gs if op(g.a) != "param"]
                        ob.violate(
                            fn.qualname,
                            where(fn, line),
                            f"{fn.name} hands the parsed (standardised) form of its input to {callee.name} with its own passthrough, and {callee.name} now reaches its passthrough tail (line {rctx.path.out[2]}) after a SUCCESSFUL lookup ({'; '.join(('' if g.b else 'not ') + show(g.a)[:40] for g in extra) or 'no lookup test'}): the caller answers with the re-joined standard form, neither the conversion nor its input",
                            witness="expand_or_standardize('https://identifiers.org/GO:', passthrough=True) == 'GO:' for a synonym URI prefix",
                            detail=f"echo-of-derived:{callee.name}",
                        )


def flags_only_report(cx: Cx, ob: Ob) -> None:
    """`strict` / `passthrough` choose how a failure is REPORTED.  In the conversion functions (and the parsers
    they call) a flag may be tested, and handed on under its own name; handed on under ANOTHER name
    (``case_sensitive=strict``) or into a computation it changes what is recognised - then the modes no longer
    agree on which inputs convert."""
    from ..terms import callee_name

    ci = cx.model.cls(CONV, ob.id)
    flags = ("strict", "passthrough")
    for m in ci.methods.values():
        if not any(m.param(f) is not None for f in flags):
            continue
        s = cx.summary(m, ob.id)
        seen = set()
        for t, ev, _ in s.all_terms():
            for c in subterms(t):
                if op(c) != "call":
                    continue
                for k, v in c[3]:
                    if k is None or k in flags:
                        continue
                    leaked = [f for f in flags if m.param(f) is not None and any(x == ("param", f) for x in subterms(v))]
                    if leaked and (ev.line, k) not in seen:
                        seen.add((ev.line, k))
                        ob.violate(
                            m.qualname,
                            where(m, ev.line),
                            f"{m.name} passes `{leaked[0]}` on as `{k}=` of {callee_name(c) or show(c[1])[:30]}: the flag that only selects how failure is reported now changes what is recognised, so a strict call fails (or succeeds) for inputs on which the default call does the opposite",
                            witness="parse_curie('Go:0001') returns a reference, parse_curie('Go:0001', strict=True) raises",
                            detail=f"flag-leak:{leaked[0]}->{k}",
                        )
        ob.site(f"{m.where} {m.qualname}", "flags are tested or handed on under their own name only")



@obligation("C08-X2", "state closure (shared with C05): all derived converter state is maintained by _index, lookup tables are never rebound after construction, and no query method writes converter state (no stale caches)", floor=5)
def x2(cx: Cx, ob: Ob) -> None:
    from ..rules import state_closure

    state_closure(cx, ob)


@obligation("C08-X6", "LOOKUP None-discipline (shared with C02-D3): lookup results and str|None results are tested with `is None`, never by truthiness - the empty prefix, the empty URI prefix and the empty identifier are legitimate values", floor=40)
def x6(cx: Cx, ob: Ob) -> None:
    from ..rules import scan_none_discipline
    from .c02 import none_scope

    scan_none_discipline(cx, ob, none_scope(cx))


@obligation("C08-D4", "the classification order of parse (URI test before CURIE test) is the same in every mode, so strict and default calls return the same reference for strings readable as both (shared with C07-D2)", floor=2)
def d4(cx: Cx, ob: Ob) -> None:
    from .c07 import d2 as parse_order

    parse_order(cx, ob)


@obligation("C08-X12", "def-use lints over the files this property is anchored in (api.py): no one-shot iterator (generator expression, map, filter, zip, iter, reversed, enumerate, generator call) bound to a name is consumed twice or inside a loop that starts after its creation; no mutable default argument is mutated, stored or returned; no binary search over a sequence that is not kept sorted; no container resized inside the loop that iterates it; no Iterable parameter consumed twice before it is materialised; itertools.groupby only over input sorted by the grouping key", floor=1)
def x12(cx: Cx, ob: Ob) -> None:
    from ..rules import package_lints

    package_lints(cx, ob, {'api.py'})
