"""C14 - written contexts read back to the same converter."""

from __future__ import annotations

import re

from ..report import Cx, Ob, describe, obligation
from ..rules import _strip_views, API, CONV, LISTS, Prov, where
from ..summ import describe_path
from ..terms import callee_name, concat_parts, is_const, op, show, subterms

describe(
    "C14",
    "other",
    "Writer/reader agreement (AGREE) and one sanitiser-flow rule: the extended-prefix-map writer emits exactly the declared fields of "
    "Record under their own names and omits a field only when the reader's default restores it; the JSON-LD writer's keys and literals "
    "are the ones from_jsonld reads, canonical prefix always, synonyms iff include_synonyms; the SHACL writer's sh: vocabulary equals the "
    "reader's query and every value interpolated into a double-quoted Turtle literal passes through the backslash escaper; the TSV "
    "writer emits the header first and (prefix, uri_prefix) rows, tab-delimited.",
    ["CPython ast", "json / csv / Turtle string-escape semantics", "pydantic field defaults"],
    ["values contain no double quote / angle bracket / control character for SHACL and TSV (as in the quantifier)"],
    ["Turtle / JSON / CSV parser behaviour", "Unicode file encoding"],
)


def record_fields(cx: Cx, ob: Ob):
    rec = cx.model.cls(f"{API}.Record", ob.id)
    out = {}
    for name, (ann, default) in rec.fields.items():
        import ast

        txt = ast.unparse(default) if default is not None else ""
        if "default_factory=list" in txt:
            d = "[]"
        elif "default=None" in txt or txt.startswith("Field(None") or txt == "None":
            d = "None"
        elif "..." in txt or default is None:
            d = "required"
        else:
            d = "other"
        out[name] = d
    return out


@obligation("C14-D1", "EPM writer/reader: _record_to_dict emits exactly the declared Record fields under their own names; a field is omitted only under a condition whose complement is the reader's default ([] for lists, None for pattern)", floor=5)
def d1(cx: Cx, ob: Ob) -> None:
    fields = record_fields(cx, ob)
    fn = cx.fn(f"{API}._record_to_dict", ob.id)
    s = cx.summary(fn, ob.id)
    rec = ("param", fn.params[0].name)
    rets = s.returns()
    for t, ev, ctx in s.all_terms():
        for c in subterms(t):
            if op(c) == "call" and callee_name(c) in ("model_dump", "dict", "model_dump_json") and is_const(dict(c[3]).get("exclude_unset"), True):
                ob.violate(
                    fn.qualname,
                    where(fn, ev.line),
                    f"the writer serialises records with {callee_name(c)}(exclude_unset=True): synonyms that reached a record by in-place merging (add_prefix/add_record with merge=True, chain) are not in the model's fields_set and are silently omitted",
                    witness="c = Converter([Record(prefix='a', uri_prefix='u')]); c.add_prefix('a', 'v', merge=True); write + load loses the URI-prefix synonym 'v'",
                    detail="exclude-unset",
                )
    emitted: dict[str, list] = {}
    for t, ctx in rets[:1]:
        if op(t) == "new" and t[1] == "dict":
            init = t[4]
            for k, v in (init[1] if op(init) == "dict" else ()):
                if k is not None and is_const(k):
                    emitted.setdefault(k[1], []).append((v, (), t[3]))
            for ev, ectx in s.mutations_of(t):
                if ev.kind == "store" and op(ev.a) == "item" and is_const(ev.a[2]):
                    emitted.setdefault(ev.a[2][1], []).append((ev.b, s.must_guards(ev), ev.line))
                else:
                    ob.undecide(f"unrecognised mutation of the record dictionary at line {ev.line}")
        elif op(t) == "dict":
            for k, v in t[1]:
                if k is not None and is_const(k):
                    emitted.setdefault(k[1], []).append((v, (), fn.node.lineno))
        else:
            ob.undecide(f"_record_to_dict returns `{show(t)[:60]}` (not a dictionary built field by field)")
            return
    for name, default in fields.items():
        if name not in emitted:
            ob.violate(fn.qualname, fn.where, f"the extended prefix map writer never emits Record field `{name}`", detail=f"missing:{name}")
            continue
        for v, conds, line in emitted[name]:
            ob.site(f"{where(fn, line)} {fn.qualname}", f"'{name}': {show(v)[:40]}" + (f" if {show(conds[0][0])[:30]}" if conds else ""))
            inner = v
            while op(inner) == "call" and op(inner[1]) == "builtin" and inner[1][1] in ("sorted", "list") and len(inner[2]) == 1:
                inner = inner[2][0]
            if inner != ("attr", rec, name):
                ob.violate(fn.qualname, where(fn, line), f"key '{name}' is written from `{show(v)[:50]}`, not from record.{name}", detail=f"role:{name}")
            if default == "required" and conds:
                ob.violate(fn.qualname, where(fn, line), f"required field `{name}` is written only conditionally", detail=f"conditional:{name}")
            for c, pol in conds:
                if default == "[]":
                    if not (c == ("attr", rec, name) and pol is True):
                        ob.violate(fn.qualname, where(fn, line), f"`{name}` is omitted under `{'' if pol else 'not '}{show(c)[:40]}`, which is not 'the list is empty'", detail=f"omit:{name}")
                elif default == "None":
                    isnn = op(c) == "cmp" and c[1] == "is not" and c[2] == ("attr", rec, name) and is_const(c[3], None) and pol is True
                    isn = op(c) == "cmp" and c[1] == "is" and c[2] == ("attr", rec, name) and is_const(c[3], None) and pol is False
                    if c == ("attr", rec, name) and pol is True:
                        ob.violate(
                            fn.qualname,
                            where(fn, line),
                            f"`{name}` is omitted by truthiness: an empty-string pattern is dropped and reads back as None (the reader's default is None, so only `is not None` may guard it)",
                            witness="Record(prefix='a', uri_prefix='u', pattern='') -> written without 'pattern' -> reloaded pattern is None",
                            detail=f"omit-truthiness:{name}",
                        )
                    elif not (isnn or isn):
                        ob.violate(fn.qualname, where(fn, line), f"`{name}` is omitted under `{show(c)[:40]}`", detail=f"omit:{name}")
    for name in emitted:
        if name not in fields:
            ob.violate(fn.qualname, fn.where, f"the writer emits key '{name}', which is not a field of Record (the reader rejects or ignores it)", detail=f"unknown-key:{name}")
    # the writer maps _record_to_dict over all records
    w = cx.fn(f"{API}.write_extended_prefix_map", ob.id)
    ws = cx.summary(w, ob.id)
    conv = ("param", w.params[0].name)
    found = False
    for t, ev, ctx in ws.all_terms():
        for x in subterms(t):
            if op(x) == "comp" and any(op(y) == "call" and y[1] == ("func", f"{API}._record_to_dict") for y in subterms(x[2])):
                found = True
                tgt, it, ifs = x[3][0]
                ob.site(f"{where(w, ev.line)} {w.qualname}", show(x)[:70])
                if it != ("attr", conv, "records"):
                    ob.violate(w.qualname, where(w, ev.line), f"write_extended_prefix_map writes `{show(it)[:40]}`, not converter.records", detail="source")
                if ifs:
                    ob.violate(w.qualname, where(w, ev.line), "write_extended_prefix_map filters the records it writes", detail="filter")
        for x in subterms(t):
            if op(x) == "call" and op(x[1]) == "ext" and x[1][1] in ("json.dumps", "json.dump"):
                kw = dict(x[3])
                if "default" in kw or "cls" in kw:
                    ob.undecide("custom JSON encoder")
    if not found:
        for c, ev, ctx in ws.calls("_record_to_dict"):
            if ctx.loops and c[2][:1] == (ctx.loops[-1].a,):
                found = True
                ob.site(f"{where(w, ev.line)} {w.qualname}", "loop: " + show(c)[:50])
                if ctx.loops[-1].b != ("attr", conv, "records"):
                    ob.violate(w.qualname, where(w, ev.line), f"write_extended_prefix_map writes `{show(ctx.loops[-1].b)[:40]}`, not converter.records", detail="source")
                if ws.must_guards(ev):
                    ob.violate(w.qualname, where(w, ev.line), "write_extended_prefix_map filters the records it writes", detail="filter")
    if not found:
        ob.undecide("write_extended_prefix_map does not map _record_to_dict over the records")


@obligation("C14-D2", "JSON-LD writer/reader: keys '@context', '@prefix', '@id' and the literal True are the ones from_jsonld reads; canonical prefix always written, synonyms iff include_synonyms, each mapped to the record's uri_prefix", floor=3)
def d2(cx: Cx, ob: Ob) -> None:
    reader = cx.fn(f"{CONV}.from_jsonld", ob.id)
    rs = cx.summary(reader, ob.id)
    reader_consts = set()
    todo, done = [rs], set()
    while todo:
        cur = todo.pop()
        for t, _, _ in cur.all_terms():
            for x in subterms(t):
                if is_const(x) and isinstance(x[1], str) and x[1].startswith("@"):
                    reader_consts.add(x[1])
                # a module-level table the reader consults (rules with lambdas): the keywords written in it
                if op(x) == "gconst":
                    import ast as _ast

                    mod_ = cx.model.modules.get(x[1])
                    node_ = mod_.constants.get(x[2]) if mod_ is not None else None
                    if node_ is not None:
                        for n_ in _ast.walk(node_):
                            if isinstance(n_, _ast.Constant) and isinstance(n_.value, str) and n_.value.startswith("@"):
                                reader_consts.add(n_.value)
                # helpers the reader delegates to (e.g. a generator over the context items)
                if op(x) == "func" and x[1] in cx.model.functions and x[1] not in done and len(done) < 12 and not x[1].endswith("._prepare"):
                    done.add(x[1])
                    todo.append(cx.summary(cx.model.functions[x[1]], ob.id))
    gt = cx.fn(f"{API}._get_expanded_term", ob.id)
    gs = cx.summary(gt, ob.id)
    rec = ("param", gt.params[0].name)
    import ast as _ast2

    p0 = gt.params[0]
    takes_record = p0.annotation is None or "Record" in _ast2.unparse(p0.annotation) or p0.name == "record"
    want_uri = ("attr", rec, "uri_prefix") if takes_record else rec
    if not takes_record:
        # the helper is handed the URI prefix itself: what it is handed is judged at its call sites
        for g_ in cx.model.functions.values():
            if g_ is gt:
                continue
            for c_, ev_, ctx_ in cx.summary(g_, ob.id).calls("_get_expanded_term"):
                a0 = c_[2][0] if c_[2] else dict(c_[3]).get(p0.name)
                if not (op(a0) == "attr" and a0[2] == "uri_prefix"):
                    ob.undecide(f"{g_.name} hands `{show(a0)[:40]}` to _get_expanded_term({p0.name}, ...): that this is the record's URI prefix is not followed")
    for t, ctx in gs.returns():
        flags = {g.a[1]: g.b for g in ctx.guards if g.kind == "guard" and op(g.a) == "param"}
        line = ctx.path.out[2]
        ob.site(f"{where(gt, line)} {gt.qualname}", f"expand={flags.get('expand')}: {show(t)[:50]}")
        if flags.get("expand") is False:
            if t != want_uri:
                ob.violate(gt.qualname, where(gt, line), f"plain JSON-LD term is `{show(t)[:40]}`, not the record's uri_prefix", detail="plain-term")
        else:
            from ..rules import dict_items

            items = dict_items(gs, t)
            if items is None:
                ob.undecide("expanded term definition is not a dict display")
                continue
            for k in items:
                if k not in reader_consts:
                    ob.violate(gt.qualname, where(gt, line), f"the writer emits key '{k}', which from_jsonld does not read", detail=f"key:{k}")
            if not is_const(items.get("@prefix"), True):
                ob.violate(gt.qualname, where(gt, line), "expanded term definitions are not written with \"@prefix\": true; from_jsonld ignores them", detail="prefix-flag")
            if items.get("@id") != want_uri:
                ob.violate(gt.qualname, where(gt, line), f"'@id' is `{show(items.get('@id'))[:40] if items.get('@id') else 'missing'}`, not the record's uri_prefix", detail="id-role")
    from .c13 import check_jsonld_reader

    check_jsonld_reader(cx, ob)
    fn = cx.fn(f"{API}._get_jsonld_context", ob.id)
    s = cx.summary(fn, ob.id)
    conv = ("param", fn.params[0].name)
    for t, ctx in s.returns():
        d = t[4] if op(t) == "new" else t
        if op(d) != "dict" or len(d[1]) != 1 or not is_const(d[1][0][0], "@context"):
            ob.violate(fn.qualname, fn.where, f"_get_jsonld_context returns `{show(t)[:50]}`, not {{'@context': ...}}", detail="envelope")
    canon = syn = False
    unknown_writes = False
    for t, ctx in s.returns():
        d = t[4] if op(t) == "new" else t
        if op(d) == "dict" and len(d[1]) == 1 and op(d[1][0][1]) not in ("new", "dict"):
            # the context is the value of an expression (a fold, a helper's result), not a dict filled by stores
            unknown_writes = True
    TERM = ("func", f"{API}._get_expanded_term")

    def term_ok(val, r) -> bool:
        return op(val) == "call" and val[1] == TERM and val[2][:1] == (r,) and dict(val[3]).get("expand") == ("param", "expand")

    def flag_of(conds) -> bool | None:
        for c, pol in conds:
            if c == ("param", "include_synonyms"):
                return pol
        return None

    writes = []  # (key term, value term, record term, event, ctx, must-guards)
    for ev, ctx in s.walk():
        recs_loop = ctx.loops[0] if ctx.loops else None
        if ev.kind == "store" and op(ev.a) == "item" and op(ev.a[1]) == "new":
            writes.append((ev.a[2], ev.b, recs_loop, ev, ctx))
        elif ev.kind == "expr" and op(ev.a) == "call" and callee_name(ev.a) == "setdefault" and op(ev.a[1]) == "attr" and op(ev.a[1][1]) == "new" and len(ev.a[2]) == 2:
            # context.setdefault(key, value): an entry like any other (written unless the key is already there)
            writes.append((ev.a[2][0], ev.a[2][1], recs_loop, ev, ctx))
        elif ev.kind == "expr" and op(ev.a) == "call" and callee_name(ev.a) == "update" and op(ev.a[1]) == "attr" and op(ev.a[1][1]) == "new" and ev.a[2]:
            arg = ev.a[2][0]
            if op(arg) == "call" and arg[1] == ("attr", ("builtin", "dict"), "fromkeys") and len(arg[2]) == 2:
                keys, val = arg[2]
                kd = keys[4] if op(keys) == "new" else keys
                if op(kd) in ("list", "tuple"):
                    for k in kd[1]:
                        writes.append((k, val, recs_loop, ev, ctx))
                    continue
            unknown_writes = True
    per_flag: dict = {}
    for key, val, recs_loop, ev, ctx in writes:
        if recs_loop is not None and recs_loop.b != ("attr", conv, "records") and any(x == ("attr", conv, "records") for x in subterms(recs_loop.b)):
            # a loop over something COMPUTED from converter.records (a prefix map built by one of the table builders)
            ob.undecide(f"the context is filled from `{show(recs_loop.b)[:60]}`, a table computed from converter.records: which names and URI prefixes it holds is not followed here")
            unknown_writes = True
            canon_syn_unknown = True
            continue
        if recs_loop is None or recs_loop.b != ("attr", conv, "records"):
            ob.violate(fn.qualname, where(fn, ev.line), "context entries are not produced by a loop over converter.records", detail="source")
            continue
        r = recs_loop.a
        flag = flag_of([(g.a, g.b) for g in ctx.guards if g.kind == "guard"])
        kind = None
        if key == ("attr", r, "prefix"):
            kind = "canon"
        elif len(ctx.loops) == 2 and ctx.loops[1].b == ("attr", r, "prefix_synonyms") and key == ctx.loops[1].a:
            kind = "syn"
        elif key == ("star", ("attr", r, "prefix_synonyms")):
            kind = "syn"
        if kind is None:
            ob.violate(fn.qualname, where(fn, ev.line), f"context key `{show(key)[:40]}` is neither the canonical prefix nor a prefix synonym", detail="key-role")
            continue
        keyvars = [r] + ([ctx.loops[1].a] if len(ctx.loops) == 2 else [])
        for g in ctx.guards:
            if g.kind != "guard" or op(g.a) == "param":
                continue
            if any(x in keyvars for x in subterms(g.a)):
                ob.violate(
                    fn.qualname,
                    where(fn, ev.line),
                    f"the {'canonical prefix' if kind == 'canon' else 'prefix synonym'} is written to the context only if `{'' if g.b else 'not '}{show(g.a)[:70]}`: some prefixes of the converter are missing from the written context and do not read back",
                    detail=f"conditional-write:{kind}",
                )
        per_flag.setdefault(kind, set()).add(flag)
        ob.site(f"{where(fn, ev.line)} {fn.qualname}", f"context[{'record.prefix' if kind == 'canon' else 'synonym'}] = term (include_synonyms={flag})")
        if not term_ok(val, r):
            ob.violate(fn.qualname, where(fn, ev.line), f"context value `{show(val)[:50]}` is not the record's term definition", detail="value-role")
    canon = "canon" in per_flag
    syn = "syn" in per_flag
    if canon and not (None in per_flag["canon"] or {True, False} <= per_flag["canon"]):
        ob.violate(fn.qualname, fn.where, "the canonical prefix is written only conditionally", detail="canonical-conditional")
    if syn and per_flag["syn"] != {True}:
        ob.violate(fn.qualname, fn.where, "prefix synonyms are not written exactly when include_synonyms is set", detail="synonym-guard")
    if unknown_writes and not (canon and syn):
        ob.undecide("_get_jsonld_context updates the context in an unrecognised way")
    else:
        if not canon:
            ob.violate(fn.qualname, fn.where, "the JSON-LD writer never writes canonical prefixes", detail="no-canonical")
        if not syn:
            ob.violate(fn.qualname, fn.where, "the JSON-LD writer never writes prefix synonyms (include_synonyms ignored)", detail="no-synonyms")
    w = cx.fn(f"{API}.write_jsonld_context", ob.id)
    ws = cx.summary(w, ob.id)
    calls = [c for c, _, _ in ws.calls("_get_jsonld_context")]
    for c in calls[:1]:
        kw = dict(c[3])
        for f in ("include_synonyms", "expand"):
            if kw.get(f) != ("param", f):
                ob.violate(w.qualname, w.where, f"write_jsonld_context does not forward `{f}`", detail=f"forward:{f}")
    if not calls:
        ob.undecide("write_jsonld_context does not call _get_jsonld_context")


def _sh_terms(texts) -> set:
    out = set()
    for t in texts:
        out |= set(re.findall(r"\bsh:([A-Za-z]+)", t))
    return out


def _const_strings(s) -> list[str]:
    return [x[1] for t, _, _ in s.all_terms() for x in subterms(t) if is_const(x) and isinstance(x[1], str)]


def _closure_strings(cx: Cx, roots) -> list[str]:
    """Every string literal in the functions reachable from ``roots`` by name (package functions, methods and the
    ``__str__`` / ``__format__`` / ``__repr__`` of package classes they instantiate) and in the module-level constants
    those functions mention: where a writer keeps its templates is its own business."""
    import ast as _ast

    seen, todo, out = set(), list(roots), []
    by_name: dict = {}
    for g in cx.model.functions.values():
        by_name.setdefault(g.name, []).append(g)
    cls_by_name = {ci.name: ci for ci in cx.model.classes.values()}
    while todo:
        g = todo.pop()
        if g.qualname in seen or len(seen) > 40:
            continue
        seen.add(g.qualname)
        for n in _ast.walk(g.node):
            if isinstance(n, _ast.Constant) and isinstance(n.value, str):
                out.append(n.value)
            elif isinstance(n, _ast.Name) and n.id in g.module.constants:
                for m in _ast.walk(g.module.constants[n.id]):
                    if isinstance(m, _ast.Constant) and isinstance(m.value, str):
                        out.append(m.value)
            elif isinstance(n, _ast.Call):
                nm = n.func.attr if isinstance(n.func, _ast.Attribute) else n.func.id if isinstance(n.func, _ast.Name) else None
                if nm in cls_by_name:
                    for special in ("__str__", "__format__", "__repr__"):
                        m_ = cls_by_name[nm].methods.get(special)
                        if m_ is not None:
                            todo.append(m_)
                for h in by_name.get(nm, ()):
                    if h.module is g.module and len(by_name.get(nm, ())) <= 2:
                        todo.append(h)
    return out


@obligation("C14-D3", "SHACL vocabulary: the sh: terms of the writer's templates equal those of from_shacl's query; the canonical line is always written, synonym lines iff include_synonyms, each with the record's uri_prefix and pattern", floor=3)
def d3(cx: Cx, ob: Ob) -> None:
    reader = cx.fn(f"{CONV}.from_shacl", ob.id)
    rterms = _sh_terms(_const_strings(cx.summary(reader, ob.id)))
    line_fn = cx.fn(f"{API}._get_shacl_line", ob.id)
    w = cx.fn(f"{API}.write_shacl", ob.id)
    wterms = _sh_terms(_const_strings(cx.summary(line_fn, ob.id)) + _const_strings(cx.summary(w, ob.id)) + _closure_strings(cx, [line_fn, w]))
    ob.site(f"{reader.where} {reader.qualname}", f"reader terms {sorted(rterms)}")
    ob.site(f"{line_fn.where} {line_fn.qualname}", f"writer terms {sorted(wterms)}")
    for t in sorted(wterms - rterms):
        ob.violate(line_fn.qualname, line_fn.where, f"the SHACL writer uses sh:{t}, which from_shacl's query does not read", detail=f"writer-only:{t}")
    for t in sorted(rterms - wterms):
        ob.violate(line_fn.qualname, line_fn.where, f"from_shacl reads sh:{t}, which the SHACL writer never writes", detail=f"reader-only:{t}")
    ws = cx.summary(w, ob.id)
    conv = ("param", w.params[0].name)
    kinds: dict = {}
    unrecognised = False
    LINE = ("func", f"{API}._get_shacl_line")

    sig = [q.name for q in line_fn.params]
    if sig[:3] != ["prefix", "uri_prefix", "pattern"]:
        # the call sites are read by parameter role: (prefix, uri_prefix, pattern)
        ob.undecide(f"_get_shacl_line takes ({', '.join(sig)}), not (prefix, uri_prefix, pattern): which argument ends up after sh:namespace / sh:pattern is not read from the call sites")
        return

    def roles(c, r, line):
        args = list(c[2]) + [None] * 3
        kw = dict(c[3])
        u, pat = args[1] or kw.get("uri_prefix"), args[2] or kw.get("pattern")
        if u != ("attr", r, "uri_prefix"):
            ob.violate(w.qualname, where(w, line), f"sh:namespace is written from `{show(u)[:40]}`, not record.uri_prefix", detail="namespace-role")
        if pat != ("attr", r, "pattern"):
            ob.violate(w.qualname, where(w, line), f"sh:pattern is written from `{show(pat)[:40] if pat else 'nothing'}`, not record.pattern", detail="pattern-role")

    def classify(p, r, loops):
        """Which lines a call writes: a list of 'canon' / 'syn' (a loop over [canonical, *synonyms] writes both)."""
        if p == ("attr", r, "prefix"):
            return ["canon"]
        if len(loops) == 2 and p == loops[1].a:
            src = _strip_views(loops[1].b)
            if op(src) == "new" and len(src) > 4 and not ws.mutations_of(src):
                src = src[4]
            if src == ("attr", r, "prefix_synonyms"):
                return ["syn"]
            if op(src) in ("list", "tuple") and src[1]:
                out = []
                for e in src[1]:
                    if e == ("attr", r, "prefix"):
                        out.append("canon")
                    elif e == ("star", ("attr", r, "prefix_synonyms")):
                        out.append("syn")
                    else:
                        return None
                return out
        return None

    seen_calls = set()
    for c, ev, ctx in ws.calls("_get_shacl_line"):
        if c[1] != LINE or (ev.line, c) in seen_calls:
            continue
        seen_calls.add((ev.line, c))
        lp = ctx.loops[0] if ctx.loops else None
        if lp is not None and _strip_views(lp.b) == ("attr", conv, "records"):
            r = lp.a
            p = c[2][0] if c[2] else dict(c[3]).get("prefix")
            kind = classify(p, r, ctx.loops)
            flag = None
            for g in ctx.guards:
                if g.kind == "guard" and g.a == ("param", "include_synonyms"):
                    flag = g.b
            if kind is None:
                ob.violate(w.qualname, where(w, ev.line), f"SHACL line for `{show(p)[:40]}`: neither canonical prefix nor synonym", detail="key-role")
                continue
            for one in kind:
                ob.site(f"{where(w, ev.line)} {w.qualname}", f"{'canonical' if one == 'canon' else 'synonym'} line (include_synonyms={flag})")
                kinds.setdefault(one, set()).add(flag)
            roles(c, r, ev.line)
            continue
        # comprehension form: for record in converter.records for prefix in [record.prefix, *synonyms...]
        comp = None
        for t, e2, _ in ws.all_terms():
            if e2.line != ev.line:
                continue
            for x in subterms(t):
                if op(x) == "comp" and any(y == c for y in subterms(x[2])):
                    comp = x
        if comp is None or not comp[3] or comp[3][0][1] != ("attr", conv, "records"):
            unrecognised = True
            continue
        r = comp[3][0][0]
        p = c[2][0] if c[2] else None
        if any(g[2] for g in comp[3]):
            ob.violate(w.qualname, where(w, ev.line), "SHACL lines are filtered", detail="filter")
        if len(comp[3]) == 1 and p == ("attr", r, "prefix"):
            kinds.setdefault("canon", set()).add(None)
            roles(c, r, ev.line)
            ob.site(f"{where(w, ev.line)} {w.qualname}", "canonical line (comprehension)")
            continue
        if len(comp[3]) == 2 and p == comp[3][1][0] and op(comp[3][1][1]) in ("list", "tuple"):
            roles(c, r, ev.line)
            for e in comp[3][1][1][1]:
                if e == ("attr", r, "prefix"):
                    kinds.setdefault("canon", set()).add(None)
                elif op(e) == "star":
                    x = e[1]
                    empty = lambda z: op(z) in ("list", "tuple") and not z[1]  # noqa: E731
                    if x == ("attr", r, "prefix_synonyms"):
                        kinds.setdefault("syn", set()).add(None)
                    elif op(x) == "ifexp" and x[1] == ("param", "include_synonyms") and x[2] == ("attr", r, "prefix_synonyms") and empty(x[3]):
                        kinds.setdefault("syn", set()).add(True)
                    elif op(x) == "ifexp" and x[1] == ("not", ("param", "include_synonyms")) and x[3] == ("attr", r, "prefix_synonyms") and empty(x[2]):
                        kinds.setdefault("syn", set()).add(True)
                    else:
                        unrecognised = True
                else:
                    unrecognised = True
            ob.site(f"{where(w, ev.line)} {w.qualname}", "canonical + synonym lines (comprehension)")
            continue
        unrecognised = True
    if not seen_calls:
        # the lines are not produced by calls of _get_shacl_line in write_shacl itself (a helper builds a list of
        # declaration objects, ...): which records and names get a line is then not read off here
        unrecognised = True
    canon, syn = "canon" in kinds, "syn" in kinds
    if canon and not (None in kinds["canon"] or {True, False} <= kinds["canon"]):
        ob.violate(w.qualname, w.where, "the canonical SHACL line is written only conditionally", detail="canonical-conditional")
    if syn and kinds["syn"] != {True}:
        ob.violate(w.qualname, w.where, "synonym lines are not written exactly when include_synonyms is set", detail="synonym-guard")
    if unrecognised and not (canon and syn):
        ob.undecide("write_shacl produces its lines in an unrecognised way")
    else:
        if not canon:
            ob.violate(w.qualname, w.where, "write_shacl never writes the canonical prefixes", detail="no-canonical")
        if not syn:
            ob.violate(w.qualname, w.where, "write_shacl never writes prefix synonyms (include_synonyms ignored)", detail="no-synonyms")


def _escaped(t) -> bool:
    """``t`` passed through ``.replace('\\\\', '\\\\\\\\')`` (possibly among other replaces / through a helper)."""
    seen = False
    while op(t) == "call" and op(t[1]) == "attr" and t[1][2] == "replace" and len(t[2]) >= 2:
        if is_const(t[2][0], "\\") and is_const(t[2][1], "\\\\"):
            seen = True
        t = t[1][1]
    return seen


def _escaped_deep(cx: Cx, t, depth: int = 0) -> bool:
    """Every run-time part of the string ``t`` has passed through the backslash escaper."""
    from ..rules import bind_args, single_return
    from ..terms import substitute

    if depth > 4:
        return False
    if is_const(t):
        return True
    if _escaped(t):
        return True
    if op(t) == "call" and op(t[1]) == "func":
        h = cx.model.functions.get(t[1][1])
        body = single_return(cx, h) if h is not None else None
        b = bind_args(h, t) if h is not None else None
        if body is not None and b is not None:
            return _escaped_deep(cx, substitute(body, {("param", k): v for k, v in b.items()}), depth + 1)
        return False
    parts = concat_parts(t)
    if parts is not None and len(parts) > 1:
        return all(_escaped_deep(cx, x, depth + 1) for x in parts)
    return False


def _escaped_by_callers(cx: Cx, fn, pname: str) -> bool:
    """Every call of ``fn`` in the package passes an already escaped string for ``pname`` (at least one call)."""
    from ..rules import bind_args

    n = 0
    for g in cx.model.functions.values():
        if g is fn:
            continue
        import ast as _ast

        if not any(isinstance(x, _ast.Name) and x.id == fn.name for x in _ast.walk(g.node)):
            continue
        gs = cx.summary(g)
        for c, ev, ctx in gs.calls(fn.name):
            b = bind_args(fn, c)
            if b is None or pname not in b:
                return False
            a = b[pname]
            if op(a) == "default":
                q = fn.param(pname)
                if q is not None and isinstance(q.default, _ast.Constant):
                    n += 1
                    continue
                return False
            if not _escaped_deep(cx, a):
                return False
            n += 1
    return n > 0


@obligation("C14-D4", "SHACL escaping (FLOW): every value interpolated inside a double-quoted Turtle literal passes through the backslash escaper on every path", floor=3)
def d4(cx: Cx, ob: Ob) -> None:
    fn = cx.fn(f"{API}._get_shacl_line", ob.id)
    s = cx.summary(fn, ob.id)
    from ..rules import inline_methods

    checked = set()
    for t, ctx in s.returns():
        parts = concat_parts(t)
        if parts is None:
            ob.undecide(f"_get_shacl_line returns `{show(t)[:60]}`")
            continue
        quotes = 0
        for p in parts:
            if is_const(p) and isinstance(p[1], str):
                quotes += p[1].count('"')
                continue
            inside = quotes % 2 == 1
            # which parameter does this part come from
            roots = sorted({x[1] for x in subterms(p) if op(x) == "param"})
            name = roots[0] if roots else show(p)[:20]
            key = (name, ctx.path.out[2])
            if key in checked:
                continue
            checked.add(key)
            ob.site(f"{where(fn, ctx.path.out[2])} {fn.qualname}", f"{{{name}}} {'inside' if inside else 'outside'} a quoted literal: {show(p)[:50]}")
            if not inside:
                # a part that brings its own quotes: the quoting function decides what is written
                for x in subterms(p):
                    if op(x) == "call" and x[1] == ("ext", "json.dumps") and not is_const(dict(x[3]).get("ensure_ascii"), False):
                        ob.violate(
                            fn.qualname,
                            where(fn, ctx.path.out[2]),
                            f"`{name}` is quoted with json.dumps(...) and its default ensure_ascii=True: a character above U+FFFF is written as a \\uD83D\\uDE00-style surrogate PAIR, which Turtle reads as two separate (lone surrogate) characters - the value does not read back",
                            witness=f"{name} containing U+1F600: two \\uXXXX escapes in the file, a different string after from_shacl",
                            detail=f"json-ascii:{name}",
                        )
                    elif op(x) == "call" and x[1] == ("builtin", "repr"):
                        ob.violate(fn.qualname, where(fn, ctx.path.out[2]), f"`{name}` is quoted with repr(): Python's escapes (\\x.., single quotes) are not Turtle's", detail=f"repr-quoted:{name}")
                continue
            q = p
            # escaping through a helper function: inline single-return helpers
            if op(q) == "call" and op(q[1]) == "func":
                from ..rules import bind_args, single_return
                from ..terms import substitute

                h = cx.model.functions.get(q[1][1])
                if h is not None:
                    body = single_return(cx, h)
                    b = bind_args(h, q)
                    if body is not None and b is not None:
                        q = substitute(body, {("param", k): v for k, v in b.items()})
            if not _escaped(q) and op(p) == "param" and _escaped_by_callers(cx, fn, p[1]):
                ob.site(f"{where(fn, ctx.path.out[2])} {fn.qualname}", f"{{{name}}} arrives escaped from every call site")
                continue
            if not _escaped(q):
                ob.violate(
                    fn.qualname,
                    where(fn, ctx.path.out[2]),
                    f"`{name}` is interpolated into a double-quoted Turtle literal without backslash escaping: a backslash in it is read back as an escape sequence",
                    witness=f"{name} = 'a\\\\b' is written as \"a\\b\" and parsed as 'a' + BACKSPACE; term: {show(p)[:60]}",
                    detail=f"unescaped:{name}",
                )


@obligation("C14-D5", "TSV: header row first, then (record.prefix, record.uri_prefix) in that column order for every record, tab-delimited", floor=1)
def d5(cx: Cx, ob: Ob) -> None:
    fn = cx.fn(f"{API}.write_tsv", ob.id)
    s = cx.summary(fn, ob.id)
    conv = ("param", fn.params[0].name)
    writers = [c for c, _, _ in s.calls("writer") if op(c[1]) == "ext" and c[1][1] == "csv.writer"]
    if not writers:
        ob.undecide("write_tsv does not use csv.writer")
        return
    d = dict(writers[0][3]).get("delimiter")
    if not is_const(d, "\t"):
        ob.violate(fn.qualname, fn.where, f"write_tsv uses delimiter {show(d) if d else 'default (comma)'}", detail="delimiter")
    esc = dict(writers[0][3]).get("escapechar")
    if esc is not None and not is_const(esc, None):
        # with an escape character the writer prefixes every occurrence of that character (and of the delimiter)
        # in a field with it: what a tab-separated reader gets back is not the prefix / URI prefix that was written
        ob.violate(
            fn.qualname,
            fn.where,
            f"write_tsv sets escapechar={show(esc)}: the csv writer then doubles that character inside every field, and a plain tab-separated read (or any reader without the same escapechar) returns the doubled form - a URI prefix containing it does not read back",
            witness="URI prefix 'file://server\\share' is written as 'file://server\\\\share'",
            detail="escapechar",
        )
    rows = [(c, ev, ctx) for c, ev, ctx in s.calls("writerow")]
    rows.sort(key=lambda x: x[1].line)
    header = [x for x in rows if not x[2].loops]
    body = [x for x in rows if x[2].loops]
    if not header and any(op(c[2][0]) in ("list", "new") for c, _, _ in s.calls("writerows") if c[2]):
        pass  # decided below together with the rows
    elif not header or header[0][0][2] != (("param", "header"),):
        ob.violate(fn.qualname, fn.where, "write_tsv does not write the header row first", detail="header")
    else:
        ob.site(f"{where(fn, header[0][1].line)} {fn.qualname}", "writerow(header)")
        if body and header[0][1].line > body[0][1].line:
            ob.violate(fn.qualname, where(fn, header[0][1].line), "the header row is written after the data rows", detail="header-order")
    bulk = [(c, ev, ctx) for c, ev, ctx in s.calls("writerows")]
    for c, ev, ctx in bulk[:1]:
        src = c[2][0] if c[2] else None
        ob.site(f"{where(fn, ev.line)} {fn.qualname}", show(c)[:70])
        if op(src) == "new" and op(src[4]) == "list":
            src = src[4]
        if op(src) == "list" and len(src[1]) == 2 and src[1][0] == ("param", "header") and op(src[1][1]) == "star":
            # header and data rows written in one call, header first
            header = [(c, ev, ctx)]
            src = src[1][1][1]
        if op(src) == "comp" and len(src[3]) == 1:
            tgt, it, ifs = src[3][0]
            row = src[2]
            if op(row) == "list":
                row = ("tuple", row[1])
            if it != ("attr", conv, "records"):
                ob.violate(fn.qualname, where(fn, ev.line), f"rows are produced from `{show(it)[:40]}`, not converter.records", detail="source")
            if ifs:
                ob.violate(fn.qualname, where(fn, ev.line), "rows are written only conditionally", detail="filter")
            if row != ("tuple", (("attr", tgt, "prefix"), ("attr", tgt, "uri_prefix"))):
                ob.violate(fn.qualname, where(fn, ev.line), f"row is `{show(src[2])[:50]}`, not (record.prefix, record.uri_prefix)", detail="columns")
        elif op(src) == "call" and callee_name(src) == "items" and op(src[1]) == "attr":
            m = src[1][1]
            if m == ("comp", "dict", ("kv", ("attr", ("bv", 0), "prefix"), ("attr", ("bv", 0), "uri_prefix")), ()):
                pass
            elif op(m) == "comp" and m[1] == "dict" and len(m[3]) == 1 and m[3][0][1] == ("attr", conv, "records") and not m[3][0][2] and m[2] == ("kv", ("attr", m[3][0][0], "prefix"), ("attr", m[3][0][0], "uri_prefix")):
                pass  # converter.bimap (inlined): canonical prefix -> canonical URI prefix
            elif op(m) == "attr" and m[1] == conv and m[2] == "prefix_map":
                ob.violate(fn.qualname, where(fn, ev.line), "write_tsv writes converter.prefix_map, which also holds every CURIE-prefix synonym: the file has several rows with the same URI prefix and does not load as a strict prefix map", witness="a record with a prefix synonym yields two rows sharing one URI prefix -> DuplicateURIPrefixes on reading", detail="rows-include-synonyms")
            elif op(m) == "attr" and m[1] == conv and m[2] in ("reverse_prefix_map", "reverse_bimap"):
                ob.violate(fn.qualname, where(fn, ev.line), f"write_tsv writes converter.{m[2]}: columns are (URI prefix, prefix)", detail="columns")
            else:
                ob.undecide(f"row source `{show(src)[:50]}` not recognised")
        else:
            ob.undecide(f"row source `{show(src)[:50] if src else None}` not recognised")
    if not body and not bulk:
        ob.violate(fn.qualname, fn.where, "write_tsv writes no data rows", detail="no-rows")
    for c, ev, ctx in body[:1]:
        lp = ctx.loops[0]
        ob.site(f"{where(fn, ev.line)} {fn.qualname}", show(c)[:60])
        if lp.b != ("attr", conv, "records"):
            ob.violate(fn.qualname, where(fn, ev.line), "rows are not produced from converter.records", detail="source")
        want = ("tuple", (("attr", lp.a, "prefix"), ("attr", lp.a, "uri_prefix")))
        row = c[2][0] if c[2] else None
        if op(row) == "list":
            row = ("tuple", row[1])
        if row != want:
            ob.violate(fn.qualname, where(fn, ev.line), f"row is `{show(c[2][0])[:50] if c[2] else '?'}`, not (record.prefix, record.uri_prefix)", detail="columns")
        if s.must_guards(ev):
            ob.violate(fn.qualname, where(fn, ev.line), "rows are written only conditionally", detail="filter")


def _replace_chain(t):
    """``x.replace(a1, b1).replace(a2, b2)`` -> (x, [(a1, b1), (a2, b2)]) for literal arguments, in application order."""
    chain = []
    while op(t) == "call" and op(t[1]) == "attr" and t[1][2] == "replace" and len(t[2]) == 2 and all(is_const(x) and isinstance(x[1], str) for x in t[2]) and not t[3]:
        chain.append((t[2][0][1], t[2][1][1]))
        t = t[1][1]
    return t, chain[::-1]


def _codec_verdict(cx: Cx, ob: Ob, fld: str, read_chain):
    """None when the replace chain the reader applies to ``fld`` undoes the one _get_shacl_line applies, for EVERY
    string; otherwise the reason.  The writing chain (leaving aside Turtle's own backslash escapes, which the
    Turtle parser undoes) has to be the classical escape scheme - first the escape character E itself
    (E -> E + code0), then every other character c -> E + code, codes of one length, pairwise distinct, none of
    the c in a code - and the reader the reverse chain of the inverse steps.  Each step then replaces something
    that cannot occur in the string it is applied to except where the matching step put it, so it is undone
    exactly; without the first step a literal 'E + code' in the input is indistinguishable from an encoded c."""
    wfn = cx.model.functions.get(f"{API}._get_shacl_line")
    if wfn is None:
        return "the writer _get_shacl_line was not found"
    ws = cx.summary(wfn, ob.id)
    wchain = None
    for t, _, _ in ws.all_terms():
        for x in subterms(t):
            base, ch = _replace_chain(x)
            if ch and base == ("param", fld) and (wchain is None or len(ch) > len(wchain)):
                wchain = ch
    wchain = [(o, n) for o, n in (wchain or []) if not n.startswith("\\")]
    if not wchain:
        return f"_get_shacl_line writes `{fld}` without the matching encoding, so ordinary text containing {read_chain[0][0]!r} is altered on reading"
    if [(n, o) for o, n in reversed(wchain)] != list(read_chain):
        return f"it is not the reverse of the writer's chain {wchain}"
    E = wchain[0][0]
    codes = [n for _, n in wchain]
    if len(E) != 1 or not wchain[0][1].startswith(E) or len(wchain[0][1]) < 2:
        return f"the writer's chain {wchain} does not escape its own escape character first: an input that already contains {codes[0]!r} is read back as {wchain[0][0]!r}"
    if any(not n.startswith(E) for n in codes) or len({len(n) for n in codes}) != 1 or len(set(codes)) != len(codes):
        return f"the codes {codes} of the writer's chain are not distinct sequences of one length introduced by {E!r}"
    if any(E in o or any(o in n for n in codes) for o, _ in wchain[1:]):
        return f"a character encoded later occurs inside an earlier code of the writer's chain {wchain}"
    return None


@obligation("C14-D6", "SHACL reader roles: from_shacl's query binds sh:prefix / sh:namespace / sh:pattern to the variables it selects, in the order the rows are unpacked into Record(prefix, uri_prefix, pattern)", floor=1)
def d6(cx: Cx, ob: Ob) -> None:
    fn = cx.fn(f"{CONV}.from_shacl", ob.id)
    s = cx.summary(fn, ob.id)
    queries = [x[1] for t, _, _ in s.all_terms() for x in subterms(t) if is_const(x) and isinstance(x[1], str) and "SELECT" in x[1]]
    if not queries:
        ob.undecide("from_shacl: SPARQL query constant not found")
        return
    q = queries[0]
    sel = re.search(r"SELECT\s+((?:\?\w+\s*)+)", q)
    order = re.findall(r"\?(\w+)", sel.group(1)) if sel else []
    binds = dict((term, var) for term, var in re.findall(r"sh:(prefix|namespace|pattern)\s+\?(\w+)", q))
    ob.site(f"{fn.where} {fn.qualname}", f"SELECT {order}; bindings {binds}")
    if set(binds) != {"prefix", "namespace", "pattern"}:
        ob.violate(fn.qualname, fn.where, f"from_shacl's query binds only {sorted(binds)}", detail="bindings")
        return
    want = [binds["prefix"], binds["namespace"], binds["pattern"]]
    if order != want:
        ob.violate(fn.qualname, fn.where, f"from_shacl selects {order} but unpacks rows as (prefix, uri_prefix, pattern) = {want}: the roles are permuted", detail="select-order")
    mo = re.search(r"OPTIONAL\s*\{", q)
    mp = re.search(r"sh:prefix", q)
    if mo and mp and mo.start() < mp.start():
        ob.violate(
            fn.qualname,
            fn.where,
            "the OPTIONAL { ... sh:pattern ... } block is the FIRST clause of the WHERE group: it is left-joined against the empty solution, so as soon as one declaration has a pattern every declaration without one is dropped",
            witness="a converter with one record with and one without a pattern: the latter does not read back",
            detail="optional-first",
        )
    if not re.search(r"OPTIONAL\s*\{[^}]*sh:pattern", q):
        ob.violate(fn.qualname, fn.where, "sh:pattern is not OPTIONAL in from_shacl's query: prefixes written without a pattern are not read back", detail="pattern-required")
    # record construction
    found = False
    for t, ctx in s.returns():
        for x in subterms(t):
            keyed = op(x) == "comp" and x[1] == "dict" and op(x[2]) == "kv" and op(x[2][2]) == "call" and op(x[2][2][1]) == "cls" and x[2][2][1][1].endswith(".Record")
            if keyed:
                # {key: Record(..) for row in results}: rows with the same key collapse into one record
                x = ("comp", "list", x[2][2], x[3], x[2][1])
            if op(x) == "comp" and op(x[2]) == "call" and op(x[2][1]) == "cls" and x[2][1][1].endswith(".Record"):
                found = True
                tgt = x[3][0][0]
                kw = dict(x[2][3])
                if len(x) > 4 and op(tgt) == "tuple" and len(tgt[1]) == 3:
                    kparts = {y for y in subterms(x[4]) if y in tgt[1][:2]}
                    if set(tgt[1][:2]) - kparts:
                        ob.violate(
                            fn.qualname,
                            fn.where,
                            f"from_shacl keeps one record per `{show(x[4])[:40]}`: declarations that differ in the other component (a synonym declared for the same namespace, written by write_shacl(include_synonyms=True)) collapse into one, so prefixes the writer wrote are not read back",
                            witness="record GO with synonym go, written with include_synonyms=True: only one of the two declarations survives the reading",
                            detail="dedupe-key",
                        )
                if op(tgt) != "tuple" or len(tgt[1]) != 3:
                    ob.undecide("from_shacl row target is not a 3-tuple")
                    continue
                a, b, c = tgt[1]
                def strip_str(v):
                    return v[2][0] if op(v) == "call" and v[1] == ("builtin", "str") and len(v[2]) == 1 else v
                # a value read through a chain of str.replace calls is the reading half of a codec whose writing
                # half is in _get_shacl_line: the two must be inverse (see _codec_verdict)
                decoded = {}
                for fld, var in (("prefix", a), ("uri_prefix", b)):
                    base, chain = _replace_chain(kw.get(fld))
                    if chain and strip_str(base) == var:
                        decoded[fld] = chain
                        kw[fld] = base
                        verdict = _codec_verdict(cx, ob, fld, chain)
                        if verdict is None:
                            ob.site(f"{fn.where} {fn.qualname}", f"{fld} decoded by {chain}: the exact inverse of what _get_shacl_line encodes")
                        else:
                            ob.violate(fn.qualname, fn.where, f"from_shacl decodes `{fld}` with {chain}: {verdict}", witness="a URI prefix that already contains the escape sequence (e.g. 'http://x/a%20b/') reads back as a different string", detail=f"codec:{fld}")
                if strip_str(kw.get("prefix")) != a or strip_str(kw.get("uri_prefix")) != b:
                    ob.violate(fn.qualname, fn.where, "from_shacl builds Record(prefix, uri_prefix) from the wrong row positions", detail="record-roles")
                pv = kw.get("pattern")
                if pv is None or not any(y == c for y in subterms(pv)):
                    ob.violate(fn.qualname, fn.where, "from_shacl does not read the pattern into the Record", detail="pattern-role")
                else:
                    sc = ("call", ("builtin", "str"), (c,), ())
                    accepted = (
                        c,
                        ("and", (c, sc)),
                        ("ifexp", c, sc, ("const", None)),
                        ("ifexp", ("cmp", "is not", c, ("const", None)), sc, ("const", None)),
                        ("ifexp", ("cmp", "is", c, ("const", None)), ("const", None), sc),
                        ("ifexp", ("not", c), ("const", None), sc),
                        ("ifexp", c, sc, c),  # a falsy pattern (None or '') is handed on as it is
                    )
                    if pv not in accepted:
                        helper = pv[1][1] if op(pv) == "call" and op(pv[1]) == "func" else None
                        hf = cx.model.functions.get(helper) if helper else None
                        drops = False
                        if hf is not None:
                            hs = cx.summary(hf, ob.id)
                            for rt, rctx in hs.returns():
                                if is_const(rt, None) and any(g.kind == "except" for g in rctx.guards):
                                    drops = True
                        if drops:
                            ob.violate(
                                fn.qualname,
                                fn.where,
                                f"from_shacl passes the pattern through `{helper.rsplit('.', 1)[-1]}`, which returns None from an exception handler: patterns the helper cannot process (e.g. XSD regular expressions such as ^\\p{{Lu}}+$ that Python's re rejects) are written by write_shacl but silently dropped on reading",
                                detail="pattern-dropped",
                            )
                        else:
                            ob.undecide(f"from_shacl: pattern value `{show(pv)[:60]}` not recognised as the row's pattern unchanged")
                if x[3][0][2]:
                    ob.violate(fn.qualname, fn.where, "from_shacl filters the declared prefixes", detail="filter")
    if not found:
        ob.undecide("from_shacl: record construction not recognised")


@obligation("C14-D7", "text files AGREE: the JSON writers (extended prefix map, JSON-LD context) and the JSON reader (_prepare) open their files with the same encoding / errors arguments", floor=3)
def d7(cx: Cx, ob: Ob) -> None:
    from ..rules import open_args_agreement

    open_args_agreement(cx, ob, [f"{API}.write_extended_prefix_map", f"{API}.write_jsonld_context"], [f"{API}._prepare"], "JSON round trip")
    from ..rules import writers_encode_faithfully

    writers_encode_faithfully(cx, ob, [f"{API}.write_extended_prefix_map", f"{API}.write_jsonld_context", f"{API}.write_shacl", f"{API}.write_tsv"])


@obligation("C14-X8", "the Record model stores prefixes and URI prefixes verbatim: no pydantic string transformation (strip / case folding / length limits) in its model_config or field declarations", floor=1)
def x8(cx: Cx, ob: Ob) -> None:
    from ..rules import record_verbatim

    record_verbatim(cx, ob)


@obligation("C14-X9", "no function on the loading path (_prepare, the from_* / load_* family and what they call) that reads a file or URL is memoised: loading the same location again reads it again", floor=5)
def x9(cx: Cx, ob: Ob) -> None:
    from ..rules import memoised_io

    ci = cx.model.cls(CONV, ob.id)
    roots = [f"{API}._prepare"] + [m.qualname for m in ci.methods.values() if m.name.startswith("from_")] + [q for q in cx.model.functions if q.startswith(f"{API}.load_")]
    memoised_io(cx, ob, roots)


@obligation("C14-X12", "def-use lints over the files this property is anchored in (api.py): no one-shot iterator (generator expression, map, filter, zip, iter, reversed, enumerate, generator call) bound to a name is consumed twice or inside a loop that starts after its creation; no mutable default argument is mutated, stored or returned; no binary search over a sequence that is not kept sorted; no container resized inside the loop that iterates it; no Iterable parameter consumed twice before it is materialised; itertools.groupby only over input sorted by the grouping key", floor=1)
def x12(cx: Cx, ob: Ob) -> None:
    from ..rules import package_lints

    package_lints(cx, ob, {'api.py'})


@obligation("C14-X13", "records are copied and serialised whole: no model_dump(exclude_unset=True) / model_fields_set anywhere in the package (in-place merges do not update pydantic's fields_set)", floor=1)
def x13(cx: Cx, ob: Ob) -> None:
    from ..rules import no_fields_set_dependence

    no_fields_set_dependence(cx, ob)


@obligation("C14-D8", "the extended prefix map writer writes the json.dumps(...) text itself: no transformation (Unicode normalisation, encoding round trips, replace / strip) between the dump and the file, ensure_ascii either way", floor=1)
def d8(cx: Cx, ob: Ob) -> None:
    w = cx.fn(f"{API}.write_extended_prefix_map", ob.id)
    s = cx.summary(w, ob.id)
    found = False
    for c, ev, ctx in s.calls():
        name = callee_name(c)
        text = None
        if name == "write_text" and c[2]:
            text = c[2][0]
        elif name == "write" and op(c[1]) == "attr" and c[2]:
            text = c[2][0]
        elif op(c[1]) == "ext" and c[1][1] == "json.dump":
            found = True
            ob.site(f"{where(w, ev.line)} {w.qualname}", "json.dump(obj, file)")
            continue
        if text is None:
            continue
        found = True
        ob.site(f"{where(w, ev.line)} {w.qualname}", f"writes {show(text)[:60]}")
        if op(text) == "call" and op(text[1]) == "ext" and text[1][1] == "json.dumps":
            continue
        wrappers = [x for x in subterms(text) if op(x) == "call" and any(op(y) == "call" and op(y[1]) == "ext" and y[1][1] == "json.dumps" for a in x[2] for y in subterms(a)) and not (op(x[1]) == "ext" and x[1][1] == "json.dumps")]
        if wrappers:
            ob.violate(
                w.qualname,
                where(w, ev.line),
                f"the JSON text passes through `{show(wrappers[0][1])[:40]}` before it is written: prefixes and URI prefixes containing characters that transformation changes (non-NFC Unicode, ...) are not reproduced exactly",
                witness="a prefix containing U+212B ANGSTROM SIGN reads back as U+00C5",
                detail="text-transformed",
            )
        else:
            ob.undecide(f"text written by write_extended_prefix_map (`{show(text)[:50]}`) not recognised as json.dumps(...)")
    if not found:
        ob.undecide("write_extended_prefix_map: no write of the JSON text found")


@obligation("C14-X25", "per-record output: in the writers (SHACL, JSON-LD context, extended prefix map, TSV) and the helpers they call, nothing computed for one record is carried over into the line / entry written for the next one (a local set before the record loop or only conditionally inside it)", floor=2)
def x25(cx: Cx, ob: Ob) -> None:
    from ..rules import carried_into_outputs

    carried_into_outputs(cx, ob, [f"{API}.write_shacl", f"{API}._get_jsonld_context", f"{API}.write_extended_prefix_map", f"{API}.write_tsv"], "a writer emits one entry per record")


@obligation("C14-X1", "OWN (shared with C10): the writers and the helpers they call neither store into nor mutate the Record objects (or their synonym lists) of the converter they serialise - a converter changed by being written no longer reads back to itself", floor=6)
def x1(cx: Cx, ob: Ob) -> None:
    from .c10 import check_no_aliasing

    check_no_aliasing(cx, ob)


@obligation("C14-X3", "no memoised derived values (cached_property / lru_cache) on Record, Reference or Converter objects: the writers read a record's names through such derived values, and records change in place after add_record(merge=True) - a stale value is written out", floor=3)
def x3(cx: Cx, ob: Ob) -> None:
    from ..rules import cached_derivations

    cached_derivations(cx, ob)


@obligation("C14-X27", "the loaders that read the writers' output back (shared with C13-D4) take every entry and every key/value as written - unfiltered, in its role: a value the writer emits (an empty pattern, an empty prefix) and the reader drops or alters does not survive the round trip", floor=6)
def x27(cx: Cx, ob: Ob) -> None:
    from .c13 import d4 as loaders_d4

    loaders_d4.fn(cx, ob) if hasattr(loaders_d4, "fn") else loaders_d4(cx, ob)


@obligation("C14-X7", "IDX (shared with C05-D1): pattern_map holds, for every record, exactly the pattern that record carries - on the constructor path, in _index and wherever else the table is written: the writers serialise the RECORDS, so a pattern that only the table knows (or knows differently) is not what a reader of the written file gets back", floor=2)
def x7(cx: Cx, ob: Ob) -> None:
    from .c01 import check_table_roles

    check_table_roles(cx, ob, ["pattern_map"])


@obligation("C14-X32", "the module-level readers (shared with C13-D1): load_extended_prefix_map / load_prefix_map / load_jsonld_context / load_shacl hand their data and **kwargs to the matching Converter.from_* - what was written is read back with the options the caller gives (strict=False for a file written with synonyms as separate declarations)", floor=4)
def x32(cx: Cx, ob: Ob) -> None:
    from .c13 import check_load_wrappers

    check_load_wrappers(cx, ob)


@obligation("C14-X4", "'read back to the same converter': every load_* builds its converter through the strict constructor, which must reject exactly the record sets in which a name is claimed by two records - both duplicate detectors compare by exact equality over all pairs of DIFFERENT records (shared with C04-D1/D2); what was written from a valid converter must not be refused on reading", floor=4)
def x4(cx: Cx, ob: Ob) -> None:
    from .c04 import d1 as c04_order, d2 as c04_matrix

    c04_order(cx, ob)
    c04_matrix(cx, ob)


@obligation("C14-X10", "what is read back is kept: Converter.__init__ reads its (Iterable, possibly one-shot) `records` argument only through one materialising call (sorted/list) and keeps that fresh list whole - never the caller's list object, never sorted in place, no record left out under a test", floor=2)
def x10(cx: Cx, ob: Ob) -> None:
    from ..rules import constructor_owns_records

    constructor_owns_records(cx, ob)
