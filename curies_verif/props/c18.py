"""C18 - the mapping service returns exactly the equivalent URIs, in the requested format."""

from __future__ import annotations

from ..model import AnalysisError
from ..report import Cx, Ob, describe, obligation
from ..rules import component, where
from ..summ import describe_path
from ..terms import callee_name, is_const, op, show, substitute, subterms

describe(
    "C18",
    "other",
    "Table closure of the content-type tables, the q-descending order and default of parse_header / handle_header, a string-flow rule "
    "(the media-type token used as table key is stripped of optional whitespace on every path and the header is dissected only at the "
    "single-character separators , ; =), the contract of _expand_pair_all (parse_uri -> expand_pair_all(strict=True) filtered by rdflib's "
    "validity test), mirror symmetry of the two bound-side branches of triples under subject<->object, and endpoint agreement between "
    "the Flask and FastAPI services (GET and POST, same negotiation, same query call, same serialisation table).",
    ["CPython ast", "RFC 7231 optional whitespace around , ; = in Accept", "rdflib Graph.query / serialize formats"],
    [],
    ["rdflib's SPARQL evaluation and the VALUES-join reordering in _optimize_node", "media-range wildcards"],
)

U = "curies.mapping_service.utils"
A = "curies.mapping_service.api"


@obligation("C18-D1", "table closure: values(CONTENT_TYPE_SYNONYMS) within keys(CONTENT_TYPE_TO_RDFLIB_FORMAT) = keys(CONTENT_TYPE_TO_HANDLER), which contain DEFAULT_CONTENT_TYPE; each rdflib format equals the +suffix of its key", floor=4)
def d1(cx: Cx, ob: Ob) -> None:
    mod = cx.model.module(U)
    syn = cx.model.const_value(mod, "CONTENT_TYPE_SYNONYMS")
    fmt = cx.model.const_value(mod, "CONTENT_TYPE_TO_RDFLIB_FORMAT")
    default = cx.model.const_value(mod, "DEFAULT_CONTENT_TYPE")
    try:
        hnd = cx.model.const_value(mod, "CONTENT_TYPE_TO_HANDLER")
    except Exception:  # noqa: BLE001
        hnd = None
    ob.site(f"src/curies/mapping_service/utils.py {U}.CONTENT_TYPE_SYNONYMS", f"{len(syn)} synonyms")
    ob.site(f"src/curies/mapping_service/utils.py {U}.CONTENT_TYPE_TO_RDFLIB_FORMAT", f"{sorted(fmt)}")
    ob.site(f"src/curies/mapping_service/utils.py {U}.DEFAULT_CONTENT_TYPE", repr(default))
    for k, v in syn.items():
        if v not in fmt:
            ob.violate(f"{U}.CONTENT_TYPE_SYNONYMS", "src/curies/mapping_service/utils.py", f"synonym {k!r} maps to {v!r}, which is not a supported result type: negotiation picks it and serialisation fails or falls through", detail=f"dangling:{k}")
        if k in fmt:
            ob.violate(f"{U}.CONTENT_TYPE_SYNONYMS", "src/curies/mapping_service/utils.py", f"{k!r} is both canonical and a synonym", detail=f"shadow:{k}")
    if default not in fmt:
        ob.violate(f"{U}.DEFAULT_CONTENT_TYPE", "src/curies/mapping_service/utils.py", f"the default content type {default!r} is not supported", detail="default")
    if default != "application/sparql-results+xml":
        ob.violate(f"{U}.DEFAULT_CONTENT_TYPE", "src/curies/mapping_service/utils.py", f"the default content type is {default!r}, not SPARQL XML", detail="default-xml")
    for k, v in fmt.items():
        if "+" not in k or k.rsplit("+", 1)[1] != v:
            ob.violate(f"{U}.CONTENT_TYPE_TO_RDFLIB_FORMAT", "src/curies/mapping_service/utils.py", f"{k!r} is serialised with rdflib format {v!r}: the body does not match the declared media type", detail=f"format:{k}")
    if hnd is not None:
        ob.site(f"src/curies/mapping_service/utils.py {U}.CONTENT_TYPE_TO_HANDLER", f"{sorted(hnd)}")
        if set(hnd) != set(fmt):
            ob.violate(f"{U}.CONTENT_TYPE_TO_HANDLER", "src/curies/mapping_service/utils.py", f"handler table keys {sorted(hnd)} differ from format table keys {sorted(fmt)}", detail="handler-keys")
        for k, v in hnd.items():
            want = "handle_" + k.rsplit("+", 1)[-1]
            if isinstance(v, tuple) and v[0] == "func" and not v[1].endswith("." + want):
                ob.violate(f"{U}.CONTENT_TYPE_TO_HANDLER", "src/curies/mapping_service/utils.py", f"{k!r} is parsed by {v[1].rsplit('.', 1)[-1]}, not {want}", detail=f"handler:{k}")


@obligation("C18-D2", "parse_header orders media types by q descending (default q = 1.0); handle_header: falsy header -> default, first supported type after synonym mapping wins, else default", floor=3)
def d2(cx: Cx, ob: Ob) -> None:
    ph = cx.fn(f"{U}.parse_header", ob.id)
    s = cx.summary(ph, ob.id)
    for t, ctx in s.returns():
        ob.site(f"{ph.where} {ph.qualname}", show(t)[:100])
        if op(t) == "comp" and t[1] in ("list", "gen") and len(t[3]) == 1 and not t[3][0][2]:
            # [key for key, _ in sorted(parts.items(), key=<second component>, reverse=True)]: the keys in the order of their values
            from .c13 import _projection

            tgt, it, _ = t[3][0]
            first = (op(tgt) == "tuple" and len(tgt[1]) == 2 and t[2] == tgt[1][0]) or t[2] == ("item", tgt, ("const", 0))
            if first and op(it) == "call" and it[1] == ("builtin", "sorted") and it[2] and op(it[2][0]) == "call" and callee_name(it[2][0]) == "items" and not it[2][0][2]:
                kw = dict(it[3])
                proj = _projection(cx, kw.get("key"))
                if proj == ("idx", 1):
                    if not is_const(kw.get("reverse"), True):
                        ob.violate(ph.qualname, ph.where, "parse_header orders media types by ASCENDING q: the client's least preferred supported type wins", witness="'text/csv;q=0.1,application/json;q=0.9' negotiates CSV", detail="ascending")
                    continue
        if not (op(t) == "call" and op(t[1]) == "builtin" and t[1][1] == "sorted" and t[2]):
            ob.undecide("parse_header does not return sorted(...)")
            continue
        parts = t[2][0]
        kw = dict(t[3])
        key, rev = kw.get("key"), kw.get("reverse")
        desc = None
        if key == ("attr", parts, "__getitem__") or key == ("attr", parts, "get"):
            desc = is_const(rev, True)
        elif op(key) == "lambda" and len(key[1]) == 1:
            body = key[2]
            x = ("lv", key[1][0])
            if body == ("item", parts, x):
                desc = is_const(rev, True)
            elif body == ("neg", ("item", parts, x)):
                desc = not is_const(rev, True)
            elif op(body) == "or" and len(body[1]) == 2 and body[1][0] == ("item", parts, x):
                # weight-or-default: a weight of 0 is falsy
                desc = is_const(rev, True)
                ob.violate(
                    ph.qualname,
                    ph.where,
                    f"parse_header sorts by `{show(body)[:50]}`: an explicit q=0 (\"not acceptable\") is falsy and is replaced by the default weight, so the type the client ranked lowest is treated as most preferred",
                    witness="'application/json;q=0, text/csv;q=0.5' negotiates JSON",
                    detail="zero-weight-as-default",
                )
            elif op(body) == "ifexp" and body[2] == ("item", parts, x) and op(body[1]) == "cmp" and body[1][1] == "is not" and body[1][2] == ("item", parts, x) and is_const(body[1][3], None):
                desc = is_const(rev, True)  # weight if given, else the default
            elif op(body) == "ifexp" and body[3] == ("item", parts, x) and op(body[1]) == "cmp" and body[1][1] == "is" and body[1][2] == ("item", parts, x) and is_const(body[1][3], None):
                desc = is_const(rev, True)
        if desc is None:
            ob.undecide(f"sort key `{show(key)[:50] if key else None}` of parse_header not recognised")
        elif not desc:
            ob.violate(ph.qualname, ph.where, "parse_header orders media types by ASCENDING q: the client's least preferred supported type wins", witness="'text/csv;q=0.1,application/json;q=0.9' negotiates CSV", detail="ascending")
    s_ph_returns = list(s.returns())
    hp = cx.fn(f"{U}._handle_part", ob.id)
    hs = cx.summary(hp, ob.id)
    defaults = set()
    for t, ctx in hs.returns():
        if op(t) == "tuple" and len(t[1]) == 2:
            q = t[1][1]
            if is_const(q):
                defaults.add(q[1])
            elif op(q) == "call" and q[1] == ("builtin", "next") and len(q[2]) == 2 and is_const(q[2][1]) and isinstance(q[2][1][1], (int, float)):
                defaults.add(q[2][1][1])  # next(<q values>, default)
            elif op(q) == "call" and q[1] == ("builtin", "next") and len(q[2]) == 2 and is_const(q[2][1], None):
                # the default is applied by the caller (parse_header); its value is read from there
                for t2, _ in s_ph_returns:
                    for x in subterms(t2):
                        if op(x) in ("const", "gconst"):
                            try:
                                val = x[1] if op(x) == "const" else cx.model.const_value(cx.model.modules[x[1]], x[2])
                            except Exception:  # noqa: BLE001
                                val = None
                            if isinstance(val, float) or (isinstance(val, int) and not isinstance(val, bool) and val == 1):
                                defaults.add(val)
            elif op(q) == "phi":
                # a local default overwritten inside a loop: `quality = 1.0` ... `for ...: quality = float(..)`
                for ev, _ in hs.walk():
                    if ev.kind == "bind" and ev.a == q[1] and is_const(ev.b) and isinstance(ev.b[1], (int, float)):
                        defaults.add(ev.b[1])
    # the q value must be looked for among ALL parameters after the media range, not only the first one
    part = ("param", hp.params[0].name)
    from ..rules import Prov as _Prov

    hprov = _Prov(hs)

    def unwrap(x):
        while True:
            if op(x) == "call" and op(x[1]) == "attr" and x[1][2] in ("strip", "lower", "casefold", "lstrip", "rstrip") and not x[2]:
                x = x[1][1]
            else:
                return x

    def param_source(x, depth=0):
        """'all' if x ranges over every ';'-separated parameter of the part, 'first' if it is a fixed one, None if unknown."""
        x = unwrap(x)
        if depth > 6:
            return None
        if op(x) == "bv" and x[1] in hprov.binders:
            src = hprov.binders[x[1]][0]
            while True:
                if op(src) == "slice" and is_const(src[3], None):
                    src = src[1]
                elif op(src) == "comp" and len(src[3]) == 1 and unwrap(src[2]) == src[3][0][0]:
                    src = src[3][0][1]
                elif op(src) == "call" and src[1] in (("builtin", "list"), ("builtin", "tuple"), ("builtin", "iter")) and len(src[2]) == 1:
                    src = src[2][0]
                elif op(src) == "new" and len(src) > 4:
                    src = src[4]
                else:
                    break
            if op(src) == "call" and op(src[1]) == "attr" and src[1][2] == "split" and unwrap(src[1][1]) == part and src[2] == (("const", ";"),) and not src[3]:
                return "all"
            if op(src) == "call" and op(src[1]) == "attr" and src[1][2] == "split" and src[2] == (("const", ";"),):
                return param_source(src[1][1], depth + 1) and "all" if unwrap(src[1][1]) != part else "all"
            return None
        if op(x) == "item" and op(x[1]) == "call" and op(x[1][1]) == "attr" and x[1][1][2] in ("partition", "split", "rpartition") and unwrap(x[1][1][1]) == part and x[1][2][:1] == (("const", ";"),):
            return "first"
        return None

    for t_, ev_, ctx_ in hs.all_terms():
        for x in subterms(t_):
            if op(x) == "call" and x[1] == ("builtin", "float") and len(x[2]) == 1:
                v = unwrap(x[2][0])
                holder = None
                if op(v) == "item" and op(v[1]) == "call" and op(v[1][1]) == "attr" and v[1][1][2] in ("partition", "split") and v[1][2][:1] == (("const", "="),):
                    holder = v[1][1][1]
                if holder is None:
                    continue
                src = param_source(holder)
                ob.site(f"{where(hp, ev_.line)} {hp.qualname}", f"q value read from {show(holder)[:40]} ({src or 'unrecognised'})")
                if src == "first":
                    ob.violate(
                        hp.qualname,
                        where(hp, ev_.line),
                        "_handle_part looks for q only in the first parameter after the media range: with another media type parameter in front (`text/csv;header=present;q=0.2`) the weight is lost and the range counts as q=1.0",
                        witness="'text/csv;header=present;q=0.2, application/sparql-results+json;q=0.9' negotiates CSV",
                        detail="first-parameter-only",
                    )
    ob.site(f"{hp.where} {hp.qualname}", f"default q {sorted(defaults)}")
    if defaults and defaults != {1.0} and defaults != {1}:
        ob.violate(hp.qualname, hp.where, f"a media type without q parameter gets q={sorted(defaults)}, not 1.0", detail="default-q")
    if not defaults:
        ob.undecide("_handle_part: default q value not found")
    hh = cx.fn(f"{U}.handle_header", ob.id)
    s = cx.summary(hh, ob.id)
    header = ("param", "header")
    default = ("param", "default")
    saw_falsy = saw_loop = saw_fall = False
    for t, ctx in s.returns():
        line = ctx.path.out[2]
        if ctx.loops:
            saw_loop = True
            lp = ctx.loops[0]
            ob.site(f"{where(hh, line)} {hh.qualname}", f"return {show(t)[:60]}")
            fast = op(lp.b) in ("new", "list", "tuple") and any(g.kind == "guard" and any(op(x) == "cmp" and x[1] in ("in", "not in") and x[3] == header and is_const(x[2]) for x in subterms(g.a)) for g in ctx.guards)
            if fast:
                # a shortcut for headers without list / parameter separators: that the display it iterates is what
                # parse_header would return for such a header is a statement about parse_header, not a shape
                ob.undecide(f"handle_header iterates `{show(lp.b)[:40]}` instead of parse_header(header) for headers that contain no separator: that both give the same candidates is not decided")
                continue
            if not (op(lp.b) == "call" and lp.b[1] == ("func", f"{U}.parse_header") and lp.b[2] == (header,)):
                ob.violate(hh.qualname, where(hh, lp.line), f"handle_header iterates `{show(lp.b)[:50]}`, not parse_header(header)", detail="source")
            mapped = ("call", ("attr", ("gconst", U, "CONTENT_TYPE_SYNONYMS"), "get"), (lp.a, lp.a), ())
            if t not in (mapped, lp.a):
                ob.violate(hh.qualname, where(hh, line), f"handle_header returns `{show(t)[:60]}`, not the (synonym-mapped) media type", detail="return")
            elif t == lp.a:
                # returning the raw part is only right when it is itself supported
                pass
            gs = [g for g in ctx.guards if g.kind == "guard" and g.line >= lp.line]
            ok = any(g.b is True and op(g.a) == "cmp" and g.a[1] == "in" and g.a[2] == t and g.a[3] == ("gconst", U, "CONTENT_TYPE_TO_RDFLIB_FORMAT") for g in gs)
            if not ok and (U, "CONTENT_TYPE_TO_RDFLIB_FORMAT") in cx.model.__dict__.get("import_time_mutated", ()) and any(g.b is True and op(g.a) == "cmp" and g.a[1] == "in" and g.a[3] == ("gconst", U, "CONTENT_TYPE_TO_RDFLIB_FORMAT") for g in gs):
                ob.undecide("handle_header tests another spelling of the media type than the one it returns against CONTENT_TYPE_TO_RDFLIB_FORMAT, and that table is filled further at import time: whether it holds the tested spelling exactly when it holds the returned one is not decided")
            elif not ok:
                ob.violate(hh.qualname, where(hh, line), "handle_header returns a media type without checking it against the supported result types", detail="unchecked")
            if not any(x == mapped for x in subterms(t)):
                # the mapping may legitimately live in parse_header - but then types that collapse onto
                # one canonical key must keep their HIGHEST q, which a plain keyed store does not do
                phs = cx.summary(ph, ob.id)
                in_parser = [ev for ev, _ in phs.walk() if any(x == ("gconst", U, "CONTENT_TYPE_SYNONYMS") for tt in (ev.a, ev.b) if isinstance(tt, tuple) for x in subterms(tt))]
                in_parser += [1 for tt, _ in phs.returns() if any(x == ("gconst", U, "CONTENT_TYPE_SYNONYMS") for x in subterms(tt))]
                if not in_parser:
                    ob.violate(hh.qualname, where(hh, line), "handle_header does not map synonyms such as application/json to the SPARQL result types", detail="no-synonyms")
                else:
                    keyed = [ev for ev, _ in phs.walk() if ev.kind == "store" and op(ev.a) == "item" and any(x == ("gconst", U, "CONTENT_TYPE_SYNONYMS") for x in subterms(ev.a[2]))]
                    maxed = any(callee_name(x) == "max" for ev in keyed for x in subterms(ev.b) if op(x) == "call")
                    if keyed and not maxed:
                        ob.violate(
                            ph.qualname,
                            where(ph, keyed[0].line),
                            "parse_header stores q-values under the synonym-mapped media type: a type and its synonym collapse onto one key and the later one overwrites the other's q, so the highest-q supported type no longer wins",
                            witness="'application/sparql-results+json;q=0.9, text/csv;q=0.5, application/json;q=0.1' negotiates CSV instead of JSON",
                            detail="synonym-collision",
                        )
                    elif not keyed:
                        ob.undecide("synonym mapping happens in parse_header in an unrecognised form")
        else:
            falsy = any(g.kind == "guard" and g.a == header and g.b is False for g in ctx.guards)
            SUP = ("gconst", U, "CONTENT_TYPE_TO_RDFLIB_FORMAT")
            if t != default and not falsy:
                # other shapes of the same negotiation
                checked = any(g.kind == "guard" and g.b is True and op(g.a) == "cmp" and g.a[1] == "in" and g.a[2] == t and g.a[3] == SUP for g in ctx.guards)
                if checked and any(x == header for x in subterms(t)):
                    # shortcut: the header as a whole (after synonym mapping) is a supported type
                    ob.site(f"{where(hh, line)} {hh.qualname}", f"shortcut return {show(t)[:50]}")
                    continue
                if op(t) == "call" and t[1] == ("builtin", "next") and len(t[2]) == 2 and t[2][1] == default and op(t[2][0]) == "comp" and len(t[2][0][3]) == 1:
                    comp = t[2][0]
                    tgt, it, ifs = comp[3][0]
                    src = it
                    if op(src) == "comp" and src[1] in ("gen", "list") and len(src[3]) == 1 and not src[3][0][2]:
                        src = src[3][0][1]  # a mapped view (synonym mapping) of the parsed header
                    from_parser = op(src) == "call" and src[1] == ("func", f"{U}.parse_header") and src[2] == (header,)
                    guarded = any(op(c) == "cmp" and c[1] == "in" and c[2] == comp[2] and c[3] == SUP for c in ifs)
                    ob.site(f"{where(hh, line)} {hh.qualname}", f"return next(<first supported>, default)")
                    saw_loop = saw_fall = True
                    if not from_parser:
                        ob.violate(hh.qualname, where(hh, line), f"handle_header iterates `{show(it)[:50]}`, not parse_header(header)", detail="source")
                    elif not guarded:
                        ob.violate(hh.qualname, where(hh, line), "handle_header returns a media type without checking it against the supported result types", detail="unchecked")
                    else:
                        saw_loop = saw_fall = True
                    continue
                if is_const(t) or op(t) == "param":
                    ob.violate(hh.qualname, where(hh, line), f"handle_header returns `{show(t)[:40]}` where the default belongs", detail="default")
                else:
                    ob.undecide(f"handle_header returns `{show(t)[:60]}`: negotiation shape not recognised")
                    saw_loop = saw_fall = True  # do not add negative-evidence findings on top
                continue
            if falsy:
                saw_falsy = True
            else:
                saw_fall = True
            if t != default:
                ob.violate(hh.qualname, where(hh, line), f"handle_header returns `{show(t)[:40]}` where the default belongs", detail="default")
    if not saw_falsy:
        ob.violate(hh.qualname, hh.where, "handle_header has no early default for a missing Accept header", detail="no-falsy")
    if not saw_loop:
        ob.violate(hh.qualname, hh.where, "handle_header never returns a negotiated type", detail="no-negotiation")
    if not saw_fall:
        ob.violate(hh.qualname, hh.where, "handle_header has no default when nothing acceptable is supported", detail="no-fallback")
    import ast

    d = hh.param("default")
    if d is None or not (isinstance(d.default, ast.Name) and d.default.id == "DEFAULT_CONTENT_TYPE"):
        ob.violate(hh.qualname, hh.where, "handle_header's default is not DEFAULT_CONTENT_TYPE", detail="default-param")


def _stripped(t, stripped_params: set) -> bool:
    """The string denoted by ``t`` has had optional whitespace removed on every path."""
    if op(t) == "call" and op(t[1]) == "attr" and t[1][2] == "strip" and not t[2]:
        return True
    if op(t) == "call" and op(t[1]) == "attr" and t[1][2] in ("lower", "casefold") and not t[2]:
        return _stripped(t[1][1], stripped_params)
    if op(t) == "item" and op(t[1]) == "comp":
        return _stripped(t[1][2], stripped_params)
    if op(t) == "item" and op(t[1]) == "call" and op(t[1][1]) == "builtin" and t[1][1][1] in ("list", "tuple") and t[1][2] and op(t[1][2][0]) == "comp":
        return _stripped(t[1][2][0][2], stripped_params)
    if op(t) == "param" and t[1] in stripped_params:
        return True
    if op(t) == "item" and op(t[1]) == "call" and callee_name(t[1]) == "split" and op(t[1][1]) == "ext" and t[1][1][1] == "re.split":
        pat = t[1][2][0] if t[1][2] else None
        return is_const(pat) and isinstance(pat[1], str) and pat[1].startswith("\\s*") and pat[1].endswith("\\s*")
    return False


@obligation("C18-D3", "OWS (FLOW): the media-type token used as table key is stripped of optional whitespace on every path, and the header is dissected only at the single-character separators , ; =", floor=2)
def d3(cx: Cx, ob: Ob) -> None:
    hp = cx.fn(f"{U}._handle_part", ob.id)
    ph = cx.fn(f"{U}.parse_header", ob.id)
    hs, ps = cx.summary(hp, ob.id), cx.summary(ph, ob.id)
    # does the caller strip before passing?
    stripped_params: set = set()
    for c, ev, ctx in ps.calls("_handle_part"):
        if c[2] and _stripped(c[2][0], set()):
            stripped_params.add(hp.params[0].name)
    for t, ctx in hs.returns():
        line = ctx.path.out[2]
        if op(t) != "tuple" or len(t[1]) != 2:
            ob.undecide(f"_handle_part returns `{show(t)[:50]}`")
            continue
        key = t[1][0]
        ob.site(f"{where(hp, line)} {hp.qualname}", f"media-type token: {show(key)[:70]}")
        if not _stripped(key, stripped_params):
            ob.violate(
                hp.qualname,
                where(hp, line),
                "the media-type token is used as a table key without removing optional whitespace: a well-formed Accept header written with a space after the comma or before ';' is not recognised",
                witness="'text/html, application/json' -> token ' application/json' is not in the synonym table -> XML default instead of JSON",
                detail="unstripped-token",
            )
    seen = set()
    for fn, s in ((hp, hs), (ph, ps)):
        for c, ev, ctx in s.calls():
            if callee_name(c) in ("split", "rsplit", "partition", "rpartition") and op(c[1]) == "attr" and c[2] and is_const(c[2][0]) and isinstance(c[2][0][1], str):
                sep = c[2][0][1]
                if (fn.qualname, sep) in seen:
                    continue
                seen.add((fn.qualname, sep))
                ob.site(f"{where(fn, ev.line)} {fn.qualname}", f"separator {sep!r}")
                if len(sep) != 1 or sep not in ",;=":
                    ob.violate(
                        fn.qualname,
                        where(fn, ev.line),
                        f"the header is dissected at the multi-character literal {sep!r}, which hard-codes 'no optional whitespace'",
                        witness="'application/json ;q=0.2,text/csv;q=0.1' or 'text/csv; q=0.5': the q parameter is not found",
                        detail=f"separator:{sep}",
                    )
        for ev, ctx in s.walk():
            if ev.kind == "guard":
                for x in subterms(ev.a):
                    if op(x) == "cmp" and x[1] in ("in", "not in") and is_const(x[2]) and isinstance(x[2][1], str) and len(x[2][1]) > 1 and any(ch in x[2][1] for ch in ";=,"):
                        if (fn.qualname, x[2][1]) not in seen:
                            seen.add((fn.qualname, x[2][1]))
                            ob.violate(fn.qualname, where(fn, ev.line), f"the header is tested for the multi-character literal {x[2][1]!r}, which hard-codes 'no optional whitespace'", detail=f"separator:{x[2][1]}")


def _rdflib_invalid_chars() -> frozenset:
    """The characters rdflib.term._is_valid_uri refuses, read from the installed rdflib's source (frozen copy of
    rdflib 7: `_invalid_uri_chars`) - the reference a vendored copy of the test is compared with."""
    import ast
    import importlib.util

    frozen = frozenset('<>" {}|\\^`')
    try:
        spec = importlib.util.find_spec("rdflib")
        src = open(spec.origin.rsplit("/", 1)[0] + "/term.py", encoding="utf-8").read()
        for n in ast.parse(src).body:
            if isinstance(n, ast.Assign) and any(isinstance(t, ast.Name) and t.id == "_invalid_uri_chars" for t in n.targets) and isinstance(n.value, ast.Constant) and isinstance(n.value.value, str):
                return frozenset(n.value.value)
    except Exception:  # noqa: BLE001
        pass
    return frozen


def _own_validity_test(cx: Cx, c, tgt):
    """Judge a filter condition that is a validity test written in the package: None = not such a test; True = the
    same forbidden characters as rdflib's; False = shape recognised, set not established; (more, fewer) = differs."""
    chars = None
    # REGEX.search(uri) is None  /  not REGEX.search(uri)
    core = c[1] if op(c) == "not" else c
    call = None
    if op(c) == "cmp" and c[1] == "is" and is_const(c[3], None):
        call = c[2]
    elif op(c) == "not":
        call = core
    if op(call) == "call" and op(call[1]) == "attr" and call[1][2] == "search" and call[2] == (tgt,) and op(call[1][1]) == "gconst":
        import re._parser as P

        mod = cx.model.modules.get(call[1][1][1])
        try:
            v = cx.model.const_value(mod, call[1][1][2]) if mod is not None else None
        except Exception:  # noqa: BLE001
            v = None
        if not (isinstance(v, tuple) and len(v) == 3 and v[0] == "regex" and isinstance(v[1], str)):
            return False
        try:
            items = list(P.parse(v[1], v[2]))
        except Exception:  # noqa: BLE001
            return False
        if len(items) == 1 and str(items[0][0]) == "IN":
            chars = set()
            for k, a in items[0][1]:
                if str(k) == "LITERAL":
                    chars.add(chr(a))
                elif str(k) == "CATEGORY" and str(a) == "CATEGORY_SPACE":
                    chars |= {chr(i) for i in range(0x3000 + 1) if chr(i).isspace()}
                elif str(k) == "RANGE":
                    chars |= {chr(i) for i in range(a[0], a[1] + 1)}
                else:
                    return False
        elif len(items) == 1 and str(items[0][0]) == "LITERAL":
            chars = {chr(items[0][1])}
        else:
            return False
    # not any(ch in uri for ch in CHARS)  /  all(ch not in uri for ch in CHARS)
    inner = c[1] if op(c) == "not" else c
    if chars is None and op(inner) == "call" and inner[1] in (("builtin", "any"), ("builtin", "all")) and len(inner[2]) == 1 and op(inner[2][0]) == "comp" and len(inner[2][0][3]) == 1:
        comp = inner[2][0]
        v_, src, conds = comp[3][0]
        want = ("in", True) if inner[1][1] == "any" else ("not in", False)
        if (op(c) == "not") == want[1] and not conds and op(comp[2]) == "cmp" and comp[2][1] == want[0] and comp[2][2] == v_ and comp[2][3] == tgt and is_const(src) and isinstance(src[1], str):
            chars = set(src[1])
        else:
            return None
    if chars is None:
        return None
    ref = _rdflib_invalid_chars()
    if chars == set(ref):
        return True
    return (chars - ref, ref - chars)


def _uriref_as_dict_key(cx: Cx, ob: Ob, s, conv, arg) -> None:
    """The bound term reaches ``converter.parse_uri`` as an rdflib ``URIRef``.  A URIRef never equals a plain ``str``
    (``Identifier.__eq__`` compares the types first), so ``uri in <dict keyed by str>`` /
    ``<dict>.get(uri)`` / ``<dict>[uri]`` in parse_uri never finds it, while the same text given as ``str`` does (the
    trie walks the characters and is not affected): a branch of parse_uri decided that way makes the service answer
    differently from ``expand_all(compress(str(u)))``."""
    if not any(op(c[1]) == "attr" and c[1][1] == conv and c[1][2] == "parse_uri" and c[2][:1] == (arg,) for c, _, _ in s.calls()):
        return
    pu = cx.fn("curies.api.Converter.parse_uri", ob.id)
    ps = cx.summary(pu, ob.id)
    me_ = ("param", pu.self_name)
    u_ = ("param", pu.params[1].name)
    DICTS = ("reverse_prefix_map", "prefix_map", "synonym_to_prefix", "pattern_map", "bimap")
    seen = set()
    from ..terms import NONE

    def found_in_dict(g):
        """(table, line) if guard ``g`` holds exactly when the raw argument IS a key of one of the str-keyed dicts."""
        a = g.a
        if op(a) == "cmp" and a[1] in ("in", "not in") and a[2] == u_ and op(a[3]) == "attr" and a[3][1] == me_ and a[3][2] in DICTS:
            return a[3][2] if (a[1] == "in") == bool(g.b) else None
        if op(a) == "cmp" and a[1] in ("is", "is not") and is_const(a[3], None):
            x = a[2]
            if op(x) == "call" and callee_name(x) == "get" and op(x[1]) == "attr" and op(x[1][1]) == "attr" and x[1][1][1] == me_ and x[1][1][2] in DICTS and x[2] == (u_,):
                return x[1][1][2] if (a[1] == "is not") == bool(g.b) else None
        return None

    # only where the branch taken for a str that IS a key ends in FAILURE: the trie would have matched that URI
    # whole, so 'u' fails and URIRef('u') does not.  (A fast path that answers what the trie would is not judged.)
    for o, ctx in ps.outcomes():
        if o is None:
            continue
        failing = o[0] == "raise" or (o[0] == "return" and (is_const(o[1], None) or o[1] == ("tuple", (NONE, NONE))))
        if not failing:
            continue
        for g in ctx.guards:
            if g.kind != "guard":
                continue
            hit = found_in_dict(g)
            x = g.a
            ev = g
            if hit and (hit, ev.line) not in seen:
                seen.add((hit, ev.line))
                ob.violate(
                    pu.qualname,
                    where(pu, ev.line),
                    f"parse_uri decides a branch by looking its raw argument up in self.{hit} (`{show(x)[:60]}`): the mapping service hands it an rdflib URIRef, which never equals the plain-str keys of that dict - the branch is taken for 'u' and not for URIRef('u'), so the service's answer for u is not what expand_all(compress(u)) gives",
                    witness="URIRef('http://ex/') in {'http://ex/': 'ex'} is False",
                    detail=f"uriref-as-str-key:{hit}",
                )


@obligation("C18-D4", "_expand_pair_all = parse_uri(u, return_none=True) -> [] on None, else expand_pair_all(prefix, identifier, strict=True) filtered by rdflib's _is_valid_uri", floor=1)
def d4(cx: Cx, ob: Ob) -> None:
    fn = cx.fn(f"{A}.MappingServiceGraph._expand_pair_all", ob.id)
    s = cx.summary(fn, ob.id)
    me = ("param", fn.self_name)
    arg = ("param", fn.params[1].name)
    conv = ("attr", me, "converter")
    saw_none = saw_list = False
    through = any(op(c[1]) == "attr" and c[1][1] == conv and c[1][2] in ("parse_uri", "expand_pair_all") for c, _, _ in s.calls())
    own_state = sorted({x[2] for ev, _ in s.walk() if ev.kind == "guard" for x in subterms(ev.a) if op(x) == "attr" and x[1] == me and x[2] not in ("converter", "query_predicates", "predicates")})
    if own_state:
        ob.undecide(f"_expand_pair_all consults self.{own_state[0]} (state of the graph itself, e.g. a remembered match) besides the converter: the paths through it are not followed")
        return
    if not through:
        ob.funnel(fn.qualname, fn.where, "_expand_pair_all answers without converter.parse_uri / expand_pair_all", False, "converter.parse_uri / expand_pair_all")
        return
    _uriref_as_dict_key(cx, ob, s, conv, arg)
    for t, ctx in s.returns():
        line = ctx.path.out[2]
        ob.site(f"{where(fn, line)} {fn.qualname}", f"return {show(t)[:80]}")
        if (op(t) == "list" and not t[1]) or (op(t) == "new" and op(t[4]) == "list" and not t[4][1] and not s.mutations_of(t)):
            saw_none = True
            g = [g for g in ctx.guards if g.kind == "guard"]
            # a bound term that is not a URI at all (a literal, a blank node): outside what the property speaks about
            if any(x.b is True and op(x.a) == "call" and x.a[1] == ("builtin", "isinstance") and len(x.a[2]) == 2 and x.a[2][0] == arg and not any(show(y).rsplit(".", 1)[-1] in ("URIRef", "str", "Identifier", "Node") for y in (x.a[2][1][1] if op(x.a[2][1]) == "tuple" else (x.a[2][1],))) for x in g):
                continue
            if not any(op(x.a) == "cmp" and is_const(x.a[3], None) and callee_name(x.a[2]) == "parse_uri" for x in g):
                ob.violate(fn.qualname, where(fn, line), "the empty answer is not tied to parse_uri finding nothing", detail="empty-guard")
            continue
        if op(t) == "new" and t[1] == "list":
            from ..rules import Prov, list_segments

            segs = list_segments(s, t, Prov(s))
            if segs and len(segs) == 1 and segs[0][0] == "each":
                _, it_, elt_, conds_ = segs[0]
                tg = ("it",)
                t = ("comp", "list", elt_, ((tg, it_, tuple(c for c, pol in conds_ if pol is True)),))
                if any(pol is not True for _, pol in conds_):
                    ob.undecide("_expand_pair_all: negative filter in the append loop")
                    continue
        if op(t) != "comp":
            ob.undecide("_expand_pair_all does not return a list comprehension")
            continue
        saw_list = True
        tgt, it, ifs = t[3][0]
        if not (op(it) == "call" and op(it[1]) == "attr" and it[1][1] == conv and it[1][2] == "expand_pair_all" and len(it[2]) == 2):
            ob.violate(fn.qualname, where(fn, line), f"equivalent URIs come from `{show(it)[:60]}`, not converter.expand_pair_all(prefix, identifier)", detail="source")
            continue
        a, b = component(it[2][0]), component(it[2][1])
        R = a[0] if a else None
        if not (a and b and a[1] == 0 and b[1] == 1 and a[0] == b[0] and op(R) == "call" and R[1] == ("attr", conv, "parse_uri") and R[2][:1] == (arg,)):
            ob.violate(fn.qualname, where(fn, line), "expand_pair_all is not applied to (prefix, identifier) of parse_uri(<input URI>)", detail="base")
        elif not is_const(dict(R[3]).get("return_none"), True) and not is_const(dict(R[3]).get("strict"), True):
            ob.violate(fn.qualname, where(fn, line), "parse_uri is called without return_none=True: unrecognised URIs yield (None, None), which is not None", detail="return-none")
        if not is_const(dict(it[3]).get("strict"), True):
            ob.violate(fn.qualname, where(fn, line), "expand_pair_all is called without strict=True and may return None, which is then iterated", detail="strict")
        if t[2] == tgt:
            # plain strings: turning them into RDF terms is then up to triples() (C18-D5 asks for it on both sides)
            ob.site(f"{where(fn, line)} {fn.qualname}", "answers are plain strings (wrapped by the caller)")
        elif t[2] != ("call", ("ext", "rdflib.URIRef"), (tgt,), ()):
            ob.violate(fn.qualname, where(fn, line), f"answers are `{show(t[2])[:40]}`, not URIRef(uri)", detail="element")
        valid = [c for c in ifs if op(c) == "call" and callee_name(c) == "_is_valid_uri" and c[2] == (tgt,)]
        for c in ifs:
            if c in valid:
                continue
            v = _own_validity_test(cx, c, tgt)
            if v is None:
                continue
            if v is True:
                valid.append(c)
                ob.site(f"{where(fn, line)} {fn.qualname}", "the package's own copy of rdflib's validity test: the same set of forbidden characters")
            elif v is False:
                ob.undecide("_expand_pair_all filters with a test of its own whose character set was not established")
                valid.append(c)
            else:
                more, fewer = v
                ob.violate(
                    fn.qualname,
                    where(fn, line),
                    f"the package's own validity test forbids {'also ' + repr(''.join(sorted(more))) if more else ''}{' and ' if more and fewer else ''}{'no longer ' + repr(''.join(sorted(fewer))) if fewer else ''} compared with rdflib's `_is_valid_uri` ({sorted(_rdflib_invalid_chars())!r}): equivalent URIs that rdflib can serialise are dropped from the answer, or ones it cannot are kept and break the serialisation",
                    witness="an equivalent URI containing one of the characters the two tests disagree on",
                    detail="validity-chars",
                )
                valid.append(c)
        if not valid:
            ob.violate(fn.qualname, where(fn, line), "syntactically invalid URIs are not filtered out", detail="validity-filter")
        if len(ifs) > len(valid):
            ob.violate(fn.qualname, where(fn, line), f"additional filter `{show([c for c in ifs if c not in valid][0])[:50]}` drops equivalent URIs", detail="extra-filter")
    if not saw_none:
        ob.violate(fn.qualname, fn.where, "_expand_pair_all has no empty answer for unrecognised URIs", detail="no-empty")
    if not saw_list:
        ob.undecide("_expand_pair_all: main return not found")


@obligation("C18-D5", "symmetry: the two bound-side branches of MappingServiceGraph.triples are mirror images under subject<->object and both are guarded by predicate membership", floor=2)
def d5(cx: Cx, ob: Ob) -> None:
    fn = cx.fn(f"{A}.MappingServiceGraph.triples", ob.id)
    s = cx.summary(fn, ob.id)
    me = ("param", fn.self_name)
    tr = ("param", fn.params[1].name)
    S, Pq, O = ("item", tr, ("const", 0)), ("item", tr, ("const", 1)), ("item", tr, ("const", 2))
    branches = []
    for ev, ctx in s.walk():
        if ev.kind != "yield":
            continue
        y = ev.a
        if op(y) != "tuple" or len(y[1]) != 3:
            ob.undecide(f"triples yields `{show(y)[:50]}`")
            continue
        guards = [(g.a, g.b) for g in ctx.guards if g.kind == "guard"]
        lp = tuple(ctx.loops) if ctx.loops else None
        same = [b for b in branches if b[0].line == ev.line]
        if same:
            # the same statement reached through another arm of a short-circuit test
            same[0][4].append(guards)
        else:
            branches.append((ev, y, guards, lp, [guards]))
        ob.site(f"{where(fn, ev.line)} {fn.qualname}", f"yield {show(y)[:50]}")
        if not any(op(g) == "cmp" and g[1] == "in" and g[2] == Pq and g[3] == ("attr", me, "query_predicates") and pol is True for g, pol in guards):
            ob.violate(fn.qualname, where(fn, ev.line), "a triple is produced without the queried predicate being one of the configured predicates", detail="predicate-guard")
    if len(branches) != 2:
        ob.violate(fn.qualname, fn.where, f"triples has {len(branches)} producing branches; expected one for a bound subject and one for a bound object", detail="branch-count")
        return

    def mirror(t):
        m = {S: ("tmpS",), O: ("tmpO",)}
        t = substitute(t, m)
        return substitute(t, {("tmpS",): O, ("tmpO",): S})

    def shape(b):
        ev, y, guards, lp, alts = b
        if lp is None:
            return None
        # name the loop variables by their source (itertools.product or nested loops)
        from ..rules import _strip_views

        ren = {}

        def elem_of(src):
            src_ = _strip_views(src)
            if op(src_) == "comp" and src_[1] in ("gen", "list") and len(src_[3]) == 1 and not src_[3][0][2]:
                # an element of (f(x) for x in xs) is f(<element of xs>)
                return substitute(src_[2], {src_[3][0][0]: elem_of(src_[3][0][1])})
            return ("elem", src_)

        for one in lp:
            tgt = one.a
            it = one.b
            if op(tgt) == "tuple" and op(it) == "call" and it[1] == ("ext", "itertools.product"):
                for v, src in zip(tgt[1], it[2]):
                    ren[v] = elem_of(src)
            elif op(tgt) == "bv":
                ren[tgt] = elem_of(it)
        yy = substitute(y, ren)
        gg = [frozenset((g, pol) for g, pol in gs if any(x in (S, O) for x in subterms(g))) for gs in alts]
        return yy, gg

    a, b = shape(branches[0]), shape(branches[1])
    if a is None or b is None:
        ob.undecide("a producing branch of triples is not a loop")
        return
    ya, ga = a
    yb, gb = b
    # which side is bound in each branch
    myb = mirror(yb)
    myb = ("tuple", (myb[1][2], myb[1][1], myb[1][0]))
    if ya != myb:
        ob.violate(
            fn.qualname,
            where(fn, branches[1][0].line),
            f"the subject-bound and object-bound branches are not mirror images: {show(ya)[:60]} vs mirrored {show(myb)[:60]}",
            witness="binding ?s and binding ?o to the same URI must return the same set of equivalents on the other side",
            detail="asymmetric-yield",
        )
    # under which (subject unbound?, object unbound?) combinations does each branch run
    SN, ON = ("cmp", "is", S, ("const", None)), ("cmp", "is", O, ("const", None))

    class _U(Exception):
        pass

    def ev_(t, env):
        o_ = op(t)
        if t == SN:
            return env[0]
        if t == ON:
            return env[1]
        if o_ == "cmp" and t[1] in ("==", "!=", "is", "is not") and {t[2], t[3]} == {S, O}:
            # the two sides compared with each other: None == None holds, bound vs unbound differs,
            # two bound terms are equal or not (third component of the world)
            same = True if (env[0] and env[1]) else False if (env[0] or env[1]) else env[2]
            return same if t[1] in ("==", "is") else not same
        if o_ == "cmp" and t[1] == "is not" and is_const(t[3], None) and t[2] in (S, O):
            return not (env[0] if t[2] == S else env[1])
        if o_ == "not":
            return not ev_(t[1], env)
        if o_ == "truth":
            return ev_(t[1], env)
        if o_ == "and":
            return all(ev_(x, env) for x in t[1])
        if o_ == "or":
            return any(ev_(x, env) for x in t[1])
        if o_ == "cmp" and t[1] in ("==", "!=", "is", "is not") and any(x in (SN, ON) or (op(x) == "cmp" and x[2] in (S, O)) for x in (t[2], t[3])):
            l, r = ev_(t[2], env), ev_(t[3], env)
            return (l == r) if t[1] in ("==", "is") else (l != r)
        if o_ == "const" and isinstance(t[1], bool):
            return t[1]
        raise _U(show(t)[:50])

    def region(gs):
        out = set()
        for sn in (False, True):
            for on in (False, True):
                for eq in ((False, True) if not sn and not on else (False,)):
                    if all(ev_(g, (sn, on, eq)) == pol for g, pol in gs):
                        out.add((sn, on) if not eq else (sn, on, "same term"))
        return out

    try:
        ra, rb = set().union(*map(region, ga)), set().union(*map(region, gb))
    except _U as e:
        ob.undecide(f"triples: guard `{e}` on the pattern sides not recognised")
        ra = rb = None
    if ra is not None:
        if ra != {(x[1], x[0], *x[2:]) for x in rb}:
            ob.violate(fn.qualname, where(fn, branches[1][0].line), "the two branches are guarded asymmetrically", witness=f"(subject unbound, object unbound) combinations: {sorted(ra)} vs {sorted(rb)}", detail="asymmetric-guard")
        for (yy, gg), reg in ((a, ra), (b, rb)):
            if reg - {(True, False), (False, True)}:
                ob.violate(fn.qualname, fn.where, f"a branch also runs when both or neither side of the pattern is bound: {sorted(reg)}", detail="binding-region")
    # the bound side is echoed, the free side comes from _expand_pair_all(bound)
    hfn = cx.model.functions.get(f"{A}.MappingServiceGraph._expand_pair_all")
    helper_wraps = None
    if hfn is not None:
        hs_ = cx.summary(hfn, ob.id)
        outs = [t_ for t_, _ in hs_.returns()]
        if any(any(op(x) == "ext" and x[1] == "rdflib.URIRef" for x in subterms(t_)) for t_, _, _ in hs_.all_terms()):
            helper_wraps = True
        elif outs:
            helper_wraps = False
    for yy, gg in (a, b):
        s_, p_, o_ = yy[1]
        bound, free, src = (o_, s_, O) if o_ == O else (s_, o_, S) if s_ == S else (None, None, None)
        if bound is None:
            ob.violate(fn.qualname, fn.where, "a branch does not echo the bound side of the pattern", detail="echo")
            continue
        want = ("elem", ("call", ("attr", me, "_expand_pair_all"), (src,), ()))
        wrapped = ("call", ("ext", "rdflib.URIRef"), (want,), ())
        if helper_wraps is False and free == want:
            ob.violate(fn.qualname, fn.where, "the free side is a plain string: _expand_pair_all returns str and this branch does not wrap it in URIRef, so the triple carries a Python str where rdflib's result serialisers need a term (JSON / XML results fail)", witness="?o-bound query answered as JSON: HTTP 500", detail="free-side-not-a-term")
        elif free != want and free != wrapped:
            ob.violate(fn.qualname, fn.where, f"the free side is `{show(free)[:50]}`, not an element of _expand_pair_all(<bound URI>)", detail="free-side")
        if p_ != ("elem", ("attr", me, "query_predicates")):
            ob.violate(fn.qualname, fn.where, f"the predicate produced is `{show(p_)[:40]}`, not an element of the configured predicates", detail="predicate")


@obligation("C18-D6", "endpoint AGREE: Flask and FastAPI serve GET and POST on the same route and both compute handle_header(accept), graph.query(q, processor=processor), serialize(format=TABLE[content_type]) and answer with that content type", floor=2)
def d6(cx: Cx, ob: Ob) -> None:
    TABLE = ("gconst", U, "CONTENT_TYPE_TO_RDFLIB_FORMAT")
    fl = cx.fn(f"{A}.get_flask_mapping_blueprint", ob.id)
    fa = cx.fn(f"{A}.get_fastapi_router", ob.id)
    fls, fas = cx.summary(fl, ob.id), cx.summary(fa, ob.id)
    # methods
    methods = set()
    for ev, ctx in fls.walk():
        if ev.kind == "def":
            for d in ev.b:
                if op(d) == "call" and callee_name(d) == "route":
                    m = dict(d[3]).get("methods")
                    if op(m) in ("list", "tuple", "set"):
                        methods |= {x[1] for x in m[1] if is_const(x)}
                    elif m is None:
                        methods.add("GET")
                    if d[2][:1] != (("param", "route"),):
                        ob.violate(fl.qualname, where(fl, ev.line), "the Flask endpoint is not served on the configured route", detail="flask-route")
    ob.site(f"{fl.where} {fl.qualname}", f"methods {sorted(methods)}")
    for m in ("GET", "POST"):
        if m not in methods:
            ob.violate(fl.qualname, fl.where, f"the Flask mapping service does not serve {m}", detail=f"flask-method:{m}")
    fa_methods = set()
    for ev, ctx in fas.walk():
        if ev.kind == "def":
            for d in ev.b:
                if op(d) == "call" and callee_name(d) in ("get", "post") and op(d[1]) == "attr":
                    fa_methods.add(callee_name(d).upper())
                    if d[2][:1] != (("param", "route"),):
                        ob.violate(fa.qualname, where(fa, ev.line), "a FastAPI endpoint is not served on the configured route", detail="fastapi-route")
    ob.site(f"{fa.where} {fa.qualname}", f"methods {sorted(fa_methods)}")
    for m in ("GET", "POST"):
        if m not in fa_methods:
            ob.violate(fa.qualname, fa.where, f"the FastAPI mapping service does not serve {m}", detail=f"fastapi-method:{m}")
    # bodies
    for fw, owner in (("flask", fl), ("fastapi", fa)):
        cores = [f for f in owner.nested.values()]
        found = False
        for h in cores:
            hs = cx.summary(h, ob.id)
            for t, ctx in hs.returns():
                ser = [x for x in subterms(t) if op(x) == "call" and callee_name(x) == "serialize"]
                if not ser:
                    continue
                found = True
                line = ctx.path.out[2]
                ob.site(f"{where(h, line)} {h.qualname}", f"{fw}: {show(t)[:80]}")
                x = ser[0]
                f = dict(x[3]).get("format")
                ct = f[2] if op(f) == "item" and f[1] == TABLE else None
                if ct is None:
                    ob.violate(h.qualname, where(h, line), f"{fw}: results are serialised with format `{show(f)[:40] if f else None}`, not CONTENT_TYPE_TO_RDFLIB_FORMAT[content_type]", detail=f"{fw}:format")
                    continue
                if not (op(ct) == "call" and ct[1] == ("func", f"{U}.handle_header") and len(ct[2]) == 1):
                    ob.violate(h.qualname, where(h, line), f"{fw}: the content type is `{show(ct)[:50]}`, not handle_header(<Accept header>)", detail=f"{fw}:negotiation")
                else:
                    harg = ct[2][0]
                    raw = op(harg) == "param" or any(is_const(y) and isinstance(y[1], str) and y[1].lower() == "accept" for y in subterms(harg))
                    if any((op(y) == "attr" and y[2] in ("accept_mimetypes", "best", "best_match")) or (op(y) == "ext" and "accept_mimetypes" in y[1]) for y in subterms(harg)):
                        ob.violate(
                            h.qualname,
                            where(h, line),
                            f"{fw}: handle_header is given `{show(harg)[:50]}`, the framework's own pick of the single highest-q type, not the Accept header: when that type is unsupported the client's best SUPPORTED type is never considered, and the two frameworks disagree",
                            witness="Accept: text/html, application/json;q=0.9 -> XML default instead of JSON",
                            detail=f"{fw}:pre-negotiated",
                        )
                    elif not raw:
                        ob.undecide(f"{fw}: argument `{show(harg)[:50]}` of handle_header not recognised as the raw Accept header")
                q = x[1][1]
                if not (op(q) == "call" and callee_name(q) == "query" and dict(q[3]).get("processor") is not None):
                    ob.violate(h.qualname, where(h, line), f"{fw}: the query is not run as graph.query(sparql, processor=processor)", detail=f"{fw}:query")
                elif q[2]:
                    # the text handed to the engine is the text the client sent (the framework has decoded the
                    # transport encoding already): another decoding / rewriting step changes the IRIs inside it
                    qt = q[2][0]
                    rew = [y for y in subterms(qt) if op(y) == "call" and ((op(y[1]) == "ext" and y[1][1].rsplit(".", 1)[-1] in ("unquote", "unquote_plus", "quote", "unescape", "escape", "sub", "normalize")) or (op(y[1]) == "attr" and y[1][2] in ("replace", "strip", "lstrip", "rstrip", "lower", "upper", "casefold", "translate", "encode", "decode", "format")))]
                    # ... unless the text cannot be a query as it stands (no `{` in it: a client that quoted it whole)
                    cannot_be_query = any(g.kind == "guard" and g.b is False and op(g.a) == "cmp" and g.a[1] == "in" and is_const(g.a[2], "{") for g in ctx.guards)
                    if rew and not cannot_be_query:
                        ob.violate(
                            h.qualname,
                            where(h, line),
                            f"{fw}: the query text is rewritten (`{show(rew[0])[:50]}`) before it reaches the engine: percent-escapes and other characters inside the IRIs of the query are changed, so recognised URIs no longer match (or the query no longer parses)",
                            witness="a DOI with %2F in a VALUES block: wrong or missing rows; %20 gives a 500",
                            detail=f"{fw}:query-rewritten",
                        )
                kw = dict(t[3]) if op(t) == "call" else {}
                declared = kw.get("content_type") or kw.get("media_type") or kw.get("mimetype")
                if declared != ct:
                    ob.violate(h.qualname, where(h, line), f"{fw}: the response declares `{show(declared)[:40] if declared else 'no type'}` while the body is serialised for `{show(ct)[:40]}`", detail=f"{fw}:declared-type")
        if not found:
            ob.undecide(f"{fw}: serialising handler not found")
        # the query is judged by the SPARQL engine, not by its spelling: an answer other than the serialised
        # result that is decided by looking at the raw query TEXT (its first word, a keyword in it) refuses
        # valid queries written differently (PREFIX / BASE prologue, comments, lower case)
        for h in cores:
            hs = cx.summary(h, ob.id)
            qparams = {("param", q_.name) for q_ in h.params if q_.name in ("sparql", "query", "q")}
            # ... and whatever the handler hands to graph.query(<text>, processor=...)
            for c_, _, _ in hs.calls("query"):
                if c_[2] and dict(c_[3]).get("processor") is not None:
                    qparams.add(c_[2][0])
            for o_, ctx in hs.outcomes():
                if o_ is None or any(op(x) == "call" and callee_name(x) == "serialize" for x in subterms(o_[1]) if isinstance(o_[1], tuple)):
                    continue
                for g in ctx.guards:
                    if g.kind != "guard":
                        continue
                    textual = [x for x in subterms(g.a) if op(x) == "call" and op(x[1]) == "attr" and x[1][2] in ("startswith", "endswith", "find", "index", "count", "upper", "lower", "strip", "lstrip", "split", "partition") and any(y in qparams for y in subterms(x[1][1]))] + [x for x in subterms(g.a) if op(x) == "cmp" and x[1] in ("in", "not in") and x[3] in qparams and is_const(x[2])]
                    if textual:
                        ob.violate(
                            h.qualname,
                            where(h, g.line),
                            f"{fw}: the handler answers `{show(o_[1])[:40]}` depending on the TEXT of the query (`{show(textual[0])[:50]}`): a valid SELECT query that starts with a PREFIX / BASE prologue or a comment is refused before the engine sees it",
                            witness="'PREFIX owl: <http://www.w3.org/2002/07/owl#> SELECT ?o WHERE { ... }' is answered 400",
                            detail=f"{fw}:query-text-filter",
                        )
                        break


@obligation("C18-D7", "configured predicates: _prepare_predicates returns {owl:sameAs} only when no predicates are given, otherwise exactly the given ones; the graph stores that set and answers only for members of it", floor=3)
def d7(cx: Cx, ob: Ob) -> None:
    fn = cx.fn(f"{A}._prepare_predicates", ob.id)
    s = cx.summary(fn, ob.id)
    pr = ("param", fn.params[0].name)
    SAME = ("attr", ("ext", "rdflib.OWL"), "sameAs")

    def is_same(x):
        return x == SAME or (op(x) == "attr" and x[2] == "sameAs") or (op(x) == "ext" and x[1].endswith(".sameAs"))

    for t, ctx in s.returns():
        line = ctx.path.out[2]
        none_case = any(g.kind == "guard" and op(g.a) == "cmp" and g.a[2] == pr and is_const(g.a[3], None) and ((g.a[1] in ("is", "==")) == g.b) for g in ctx.guards)
        not_none = any(g.kind == "guard" and op(g.a) == "cmp" and g.a[2] == pr and is_const(g.a[3], None) and ((g.a[1] in ("is", "==")) != g.b) for g in ctx.guards)
        # elements of the returned set
        elems = []
        src = t
        # set(CONSTANT) / frozenset display kept in a module-level constant: its elements
        while op(src) == "call" and src[1] in (("builtin", "set"), ("builtin", "frozenset")) and len(src[2]) == 1 and not src[3]:
            src = src[2][0]
        if op(src) == "gconst":
            from ..terms import Lowering

            mod_ = cx.model.modules.get(src[1])
            node_ = mod_.constants.get(src[2]) if mod_ is not None else None
            if node_ is not None:
                try:
                    src = Lowering(cx.model, None, mod_).expr(node_, {})
                except Exception:  # noqa: BLE001
                    pass
            while op(src) == "call" and src[1] in (("builtin", "set"), ("builtin", "frozenset")) and len(src[2]) == 1 and not src[3]:
                src = src[2][0]
        if op(src) == "new":
            init = src[4]
            elems += list(init[1]) if op(init) in ("set", "list") else []
            for ev, ectx in s.mutations_of(src):
                if ev.kind == "expr" and callee_name(ev.a) in ("add", "update"):
                    # only count mutations on this path
                    if ev in ctx.path.events:
                        elems.append(("mut", ev.a))
        elif op(src) == "set":
            elems += list(src[1])
        elif op(src) == "comp":
            elems.append(src)
        has_same = any(is_same(e) for e in elems if op(e) != "mut")
        ob.site(f"{where(fn, line)} {fn.qualname}", f"{'predicates is None' if none_case else 'predicates given'}: {show(t)[:60]}")
        if none_case and not has_same:
            ob.violate(fn.qualname, where(fn, line), "without configured predicates the default owl:sameAs is not used", detail="no-default")
        if not none_case and has_same:
            ob.violate(
                fn.qualname,
                where(fn, line),
                "owl:sameAs is added to explicitly configured predicates: a graph configured for other predicates answers owl:sameAs queries although it must return nothing for them",
                witness="MappingServiceGraph(converter=c, predicates=['skos:exactMatch']) answers ?s owl:sameAs ?o",
                detail="default-always-added",
            )
    g = cx.fn(f"{A}.MappingServiceGraph.__init__", ob.id)
    gs = cx.summary(g, ob.id)
    me = ("param", g.self_name)
    stores = [ev for ev, _ in gs.distinct_events("store") if ev.a == ("attr", me, "query_predicates")]
    if not stores:
        ob.violate(g.qualname, g.where, "the graph does not store its configured predicates", detail="no-store")
    for ev in stores:
        ob.site(f"{where(g, ev.line)} {g.qualname}", show(ev.b)[:60])
        if not (op(ev.b) == "call" and ev.b[1] == ("func", f"{A}._prepare_predicates") and ev.b[2] == (("param", "predicates"),)):
            ob.violate(g.qualname, where(g, ev.line), f"query_predicates is `{show(ev.b)[:50]}`, not _prepare_predicates(predicates)", detail="store-value")


@obligation("C18-D8", "MappingServiceGraph keeps no memo or other mutable state beyond what __init__ sets (per instance or at class level): answers depend only on the converter and the query", floor=1)
def d8(cx: Cx, ob: Ob) -> None:
    from ..rules import class_state_closure

    class_state_closure(cx, ob, f"{A}.MappingServiceGraph")
    # a memo of the last answer that is RE-VALIDATED against the converter's trie before it is used (no longer
    # registered prefix matches as well) does not make answers depend on history; that the validation is complete
    # is a question about the trie query, so the verdict is "not decided" rather than "violated"
    ci = cx.model.cls(f"{A}.MappingServiceGraph", ob.id)
    keep = []
    for f in ob.findings:
        attr = f.key.rsplit("state-write:", 1)[-1] if "state-write:" in f.key else None
        validated = False
        if attr is not None:
            for m in ci.methods.values():
                if not m.self_name:
                    continue
                ms = cx.summary(m, ob.id)
                me_ = ("param", m.self_name)
                for ev, ctx in ms.walk():
                    if ev.kind == "guard" and any(x == ("attr", me_, attr) for g in ctx.guards + (ev,) for x in subterms(g.a)) and any(op(x) == "attr" and x[2] == "trie" for x in subterms(ev.a)):
                        validated = True
        if validated:
            ob.undecide(f"MappingServiceGraph remembers self.{attr} between queries and checks it against converter.trie before using it: that the check excludes every longer registered prefix is not decided")
        else:
            keep.append(f)
    ob.findings[:] = keep


@obligation("C18-D9", "VALUES placement: MappingServiceSPARQLProcessor.query evaluates only a query whose algebra went through _optimize_node, unconditionally; _optimize_node swaps the operands of exactly the Join nodes whose second operand is a ToMultiSet (VALUES) and whose first is not, and recurses into every child", floor=2)
def d9(cx: Cx, ob: Ob) -> None:
    R = "curies.mapping_service.rdflib_custom"
    q = cx.fn(f"{R}.MappingServiceSPARQLProcessor.query", ob.id)
    s = cx.summary(q, ob.id)
    me = ("param", q.self_name)
    qp = ("param", q.params[1].name)
    OPT = ("func", f"{R}._optimize_node")
    n_eval = 0
    for t, ctx in s.returns():
        line = ctx.path.out[2]
        evals = [x for x in subterms(t) if op(x) == "call" and callee_name(x) == "evalQuery"]
        if not evals:
            if any(op(x) == "call" and op(x[1]) == "attr" and x[1][1] == me and x[1][2] == "query" for x in subterms(t)):
                ob.site(f"{where(q, line)} {q.qualname}", "re-enters query() with the translated query")
                continue
            ob.undecide(f"query() returns `{show(t)[:60]}`")
            continue
        n_eval += 1
        ob.site(f"{where(q, line)} {q.qualname}", "evalQuery(...)")
        stores = [ev for ev in ctx.path.events if ev.kind == "store" and op(ev.a) == "attr" and ev.a[2] == "algebra"]
        ok = [ev for ev in stores if op(ev.b) == "call" and ev.b[1] == OPT]
        if not ok:
            ob.violate(
                q.qualname,
                where(q, line),
                "query() evaluates a query whose algebra did not go through _optimize_node on this path: a VALUES block after the triple pattern is joined in the wrong order and the custom triples() never sees the bound values",
                witness=" -> ".join(("" if g.b else "not ") + show(g.a)[:50] for g in ctx.guards if g.kind == "guard"),
                detail="unoptimised-path",
            )
            continue
        # the optimisation itself must not sit under a condition other than the str/Query dispatch
        for ev in ok:
            for g in s.must_guards(ev):
                if not (op(g[0]) == "call" and callee_name(g[0]) == "isinstance"):
                    ob.violate(q.qualname, where(q, ev.line), f"_optimize_node runs only if `{'' if g[1] else 'not '}{show(g[0])[:50]}`", detail="conditional-optimisation")
    # the processor refuses nothing on the strength of the query's SPELLING: a raise (or early answer) under a test
    # of the raw query text - a keyword looked for as a substring - also hits queries in which the word is part
    # of an IRI, a literal or a comment
    for o_, ctx in s.outcomes():
        if o_ is None or o_[0] != "raise":
            continue
        for g in ctx.guards:
            if g.kind != "guard":
                continue
            textual = [x for x in subterms(g.a) if op(x) == "cmp" and x[1] in ("in", "not in") and is_const(x[2]) and isinstance(x[2][1], str) and any(y == qp for y in subterms(x[3]))] + [x for x in subterms(g.a) if op(x) == "call" and op(x[1]) == "attr" and x[1][2] in ("startswith", "find", "index", "count") and any(y == qp for y in subterms(x[1][1]))] + [x for x in subterms(g.a) if op(x) == "call" and op(x[1]) == "ext" and x[1][1].startswith("re.") and any(y == qp for a_ in x[2] for y in subterms(a_))]
            if textual:
                ob.violate(
                    q.qualname,
                    where(q, o_[2]),
                    f"query() refuses a query because of its TEXT (`{show(textual[0])[:60]}`): the word is also found inside IRIs, literals and comments, so a valid mapping query that merely mentions such a URI is rejected (HTTP 500) instead of answered",
                    witness="SELECT ?o WHERE { <https://services.example.org/x> owl:sameAs ?o }: 'SERVICE' is a substring of the upper-cased text",
                    detail="query-text-filter",
                )
                break
    if n_eval == 0:
        ob.undecide("query() never calls evalQuery")
    o = cx.fn(f"{R}._optimize_node", ob.id)
    os_ = cx.summary(o, ob.id)
    cv = ("param", o.params[0].name)
    swaps = [(ev, ctx) for ev, ctx in os_.walk() if ev.kind == "expr" and op(ev.a) == "call" and callee_name(ev.a) == "update" and ev.a[1][1] == cv]
    ob.site(f"{o.where} {o.qualname}", f"{len(swaps)} swap site(s)")
    if not swaps:
        ob.undecide("_optimize_node: swap `comp_value.update(p1=..., p2=...)` not found")
    for ev, ctx in swaps:
        kw = dict(ev.a[3])
        if kw.get("p1") != ("attr", cv, "p2") or kw.get("p2") != ("attr", cv, "p1"):
            ob.violate(o.qualname, where(o, ev.line), f"_optimize_node does not swap p1 and p2 (`{show(ev.a)[:60]}`)", detail="swap")
        from ..rules import guard_atoms

        atoms = set(guard_atoms(ctx.guards))
        name = lambda x: ("attr", x, "name")  # noqa: E731
        want = {
            (("cmp", "==", name(cv), ("const", "Join")), True),
            (("cmp", "==", name(("attr", cv, "p1")), ("const", "ToMultiSet")), False),
            (("cmp", "==", name(("attr", cv, "p2")), ("const", "ToMultiSet")), True),
        }
        if atoms != want:
            extra = sorted(show(a)[:40] + "=" + str(p) for a, p in atoms - want)
            missing = sorted(show(a)[:40] + "=" + str(p) for a, p in want - atoms)
            ob.violate(o.qualname, where(o, ev.line), f"_optimize_node swaps under a different condition (missing {missing}, extra {extra})", detail="swap-condition")
    rec = [(c, ev, ctx) for c, ev, ctx in os_.calls("_optimize_node") if ctx.loops]
    if not rec and any(ev.kind == "while" for ev, _ in os_.walk()):
        # an explicit work list instead of recursion: that every child is pushed and every pushed node visited is a
        # loop invariant, not a call shape
        ob.undecide("_optimize_node walks the algebra with a `while` loop over a work list instead of recursing: coverage of the tree is not decided")
    elif not rec:
        ob.violate(o.qualname, o.where, "_optimize_node does not recurse into the children of a node: a misplaced VALUES deeper in the algebra stays where it is", detail="no-recursion")
    for c, ev, ctx in rec[:1]:
        lp = ctx.loops[-1]
        if not (op(lp.b) == "call" and callee_name(lp.b) == "values" and lp.b[1][1] == cv):
            ob.undecide(f"_optimize_node iterates `{show(lp.b)[:40]}`, not comp_value.values()")


@obligation("C18-X1", "OWN (shared with C10): the mapping service uses the caller's converter itself - it does not build a private converter over the SAME Record objects (whose tables then lag behind records extended through the original)", floor=6)
def x1(cx: Cx, ob: Ob) -> None:
    from .c10 import check_no_aliasing

    check_no_aliasing(cx, ob)


@obligation("C18-X12", "def-use lints over the files this property is anchored in (api.py, mapping_service/api.py, mapping_service/rdflib_custom.py, mapping_service/utils.py): no one-shot iterator (generator expression, map, filter, zip, iter, reversed, enumerate, generator call) bound to a name is consumed twice or inside a loop that starts after its creation; no mutable default argument is mutated, stored or returned; no binary search over a sequence that is not kept sorted; no container resized inside the loop that iterates it; no Iterable parameter consumed twice before it is materialised; itertools.groupby only over input sorted by the grouping key", floor=1)
def x12(cx: Cx, ob: Ob) -> None:
    from ..rules import package_lints

    package_lints(cx, ob, {'mapping_service/rdflib_custom.py', 'api.py', 'mapping_service/utils.py', 'mapping_service/api.py'})


@obligation("C18-D10", "media-type tables AGREE: every synonym maps a concrete media type (no '*' media range) onto a key of CONTENT_TYPE_TO_RDFLIB_FORMAT; the handler table has the same keys; DEFAULT_CONTENT_TYPE is one of them", floor=3)
def d10(cx: Cx, ob: Ob) -> None:
    mod = cx.model.module(U)
    try:
        syn = cx.model.const_value(mod, "CONTENT_TYPE_SYNONYMS")
        fmt = cx.model.const_value(mod, "CONTENT_TYPE_TO_RDFLIB_FORMAT")
        dflt = cx.model.const_value(mod, "DEFAULT_CONTENT_TYPE")
    except AnalysisError as e:
        ob.undecide(f"media-type tables are not foldable constants: {e.reason}")
        return
    if not isinstance(syn, dict) or not isinstance(fmt, dict):
        ob.undecide("media-type tables are not dictionaries")
        return
    ob.site(f"src/curies/mapping_service/utils.py {U}.CONTENT_TYPE_SYNONYMS", f"{len(syn)} synonyms")
    ob.site(f"src/curies/mapping_service/utils.py {U}.CONTENT_TYPE_TO_RDFLIB_FORMAT", f"{len(fmt)} result types")
    ob.site(f"src/curies/mapping_service/utils.py {U}.DEFAULT_CONTENT_TYPE", repr(dflt))
    for k, v in syn.items():
        if "*" in str(k):
            ob.violate(
                f"{U}.CONTENT_TYPE_SYNONYMS",
                "src/curies/mapping_service/utils.py",
                f"the synonym table maps the media RANGE {k!r} to {v!r}: a wildcard then counts as a supported type of its own, and '*/*;q=0.9, application/sparql-results+json;q=0.5' is answered with {v} instead of the client's highest-q SUPPORTED type",
                detail=f"wildcard-synonym:{k}",
            )
        if v not in fmt:
            ob.violate(f"{U}.CONTENT_TYPE_SYNONYMS", "src/curies/mapping_service/utils.py", f"synonym {k!r} maps to {v!r}, which is not a supported result type", detail=f"dangling-synonym:{k}")
    for k in fmt:
        if "*" in str(k):
            ob.violate(f"{U}.CONTENT_TYPE_TO_RDFLIB_FORMAT", "src/curies/mapping_service/utils.py", f"{k!r} is a media range, not a result type", detail=f"wildcard-type:{k}")
    if dflt not in fmt:
        ob.violate(f"{U}.DEFAULT_CONTENT_TYPE", "src/curies/mapping_service/utils.py", f"the default {dflt!r} is not a supported result type", detail="default-unsupported")


@obligation("C18-D11", "the namespace bindings rdflib gives every graph (owl, rdf, rdfs, xsd, xml - the documented queries use owl:sameAs without declaring it) survive construction: MappingServiceGraph binds nothing with rdflib's default override=True, which re-points a namespace that already has a prefix and DROPS the old prefix (rdflib's NamespaceManager.bind: `override` - 'rebind, even if the given namespace is already bound to another prefix')", floor=1)
def d11(cx: Cx, ob: Ob) -> None:
    ci = cx.model.cls(f"{A}.MappingServiceGraph", ob.id)
    n = 0
    for m in ci.methods.values():
        s = cx.summary(m, ob.id)
        n += 1
        for c, ev, ctx in s.calls("bind"):
            if op(c[1]) != "attr":
                continue
            kw = dict(c[3])
            override = kw.get("override", c[2][2] if len(c[2]) > 2 else None)
            if is_const(override, False):
                ob.site(f"{where(m, ev.line)} {m.qualname}", "bind(..., override=False)")
                continue
            ob.violate(
                m.qualname,
                where(m, ev.line),
                f"`{show(c)[:60]}` binds with rdflib's default override=True: if the URI prefix is a namespace the graph already knows under another prefix (the converter holds the OWL namespace as 'OWL', SKOS as 'SKOS' ...), the built-in prefix is dropped, and the documented queries that use owl:sameAs / skos:exactMatch without a PREFIX declaration fail with 'Unknown namespace prefix' for every URI",
                witness="Converter with Record(prefix='OWL', uri_prefix='http://www.w3.org/2002/07/owl#'): SELECT ?o WHERE { <u> owl:sameAs ?o } raises",
                detail="bind-override",
            )
    ob.site(f"src/curies/mapping_service/api.py MappingServiceGraph", f"{n} methods scanned for namespace bindings")


@obligation("C18-X30", "'exactly the syntactically valid members of expand_all(compress(u))' - the reference set is computed by cutting the CURIE that compress printed: _split cuts the UNMODIFIED string at the first separator, parse_curie splits with self.delimiter and hands prefix and identifier on untouched, expand_all is expand_pair_all of that pair (shared with C02-D1/D2/D5/D6) - so that it is the set the service computes from parse_uri(u) directly", floor=4)
def x30(cx: Cx, ob: Ob) -> None:
    from .c02 import check_expand_wrappers, check_parse_curie_delimiter, check_parse_curie_flow, check_split

    check_split(cx, ob)
    check_parse_curie_delimiter(cx, ob)
    check_parse_curie_flow(cx, ob)
    check_expand_wrappers(cx, ob, only_expand_all=True)  # expand / expand_pair are not part of the reference set
