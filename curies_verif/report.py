"""Obligations, verdicts, evidence files, known findings, exit codes (DESIGN.md 1.2, 2.5, 5)."""

from __future__ import annotations

import json
import os
import pathlib
import time
import traceback
from dataclasses import dataclass, field
from typing import Callable

from .model import AnalysisError, FunctionInfo, Model
from .summ import Summariser

VERIF = pathlib.Path(__file__).resolve().parent.parent
EVIDENCE_DIR = VERIF / "evidence"
KNOWN_FILE = VERIF / "known_findings.json"

HOLDS, VIOLATED, UNDECIDED = "HOLDS", "VIOLATED", "UNDECIDED"


@dataclass
class Finding:
    key: str  # <obligation>/<construct>[/<detail>] - never a line number
    where: str  # file:line (informational)
    message: str
    witness: str = ""


@dataclass
class Ob:
    id: str
    rule: str
    floor: int = 1
    sites: list[str] = field(default_factory=list)
    findings: list[Finding] = field(default_factory=list)
    undecided: list[str] = field(default_factory=list)
    notes: list[str] = field(default_factory=list)

    def site(self, where, note: str = "") -> None:
        if isinstance(where, FunctionInfo):
            where = f"{where.where} {where.qualname}"
        s = f"{where} {note}".strip()
        if s not in self.sites:
            self.sites.append(s)

    def violate(self, construct: str, where: str, message: str, witness: str = "", detail: str = "") -> None:
        key = f"{self.id}/{construct}" + (f"/{detail}" if detail else "")
        if any(f.key == key for f in self.findings):
            return
        drift = self._calling_convention_changed(construct, detail)
        if drift is not None:
            self.undecide(f"{construct.rsplit('.', 1)[-1]}: {drift} - the rule reads calls by the pinned calling convention (`{detail or message[:40]}` not confirmed)")
            return
        through = getattr(self, "reads_through_list", {}).get(construct)
        if through is not None:
            # nothing positive is known: the rule looked for tests on the way from a value's source to its use, and
            # part of that way now runs through the list a generator helper's values were collected in
            self.undecide(f"{construct.rsplit('.', 1)[-1]} takes values from the generator helper `{through}` through an intermediate list, which this rule does not follow (`{detail or message[:40]}` not confirmed)")
            return
        self.findings.append(Finding(key, where, message, witness))

    def _calling_convention_changed(self, construct: str, detail: str = "") -> str | None:
        """The finding sits in a function that USES a changed calling convention of a pinned function, which the
        rules do not read:
        (shim) a required parameter P that became ``P=None`` and is re-bound from another argument under an
               ``is None`` test (``format_curie(reference)`` for ``format_curie(prefix, identifier)``) - in the
               function itself and in callers that pass fewer arguments than the pinned tree required;
        (renamed) a pinned parameter that no longer exists - in callers that pass a keyword the pinned signature does
               not have, and in the function itself for findings that name the lost parameter.
        A formerly required parameter that merely got a default (``case_sensitive=True``) is NOT such a change: the
        function is read with that default where a caller leaves it out - which is how such defects are found."""
        cx = getattr(self, "cx", None)
        if cx is None:
            return None
        import ast as _ast

        drifted = cx.model.__dict__.get("_drifted")
        if drifted is None:
            import json as _json

            drifted = {}
            here = pathlib.Path(__file__).parent
            try:
                req = _json.loads((here / "known_required.json").read_text())
                sigs = _json.loads((here / "known_signatures.json").read_text())
            except Exception:  # noqa: BLE001
                req, sigs = {}, {}
            for q, names in sigs.items():
                f = cx.model.functions.get(q)
                if f is None:
                    continue
                gone = [n for n in names if f.param(n) is None]
                if gone:
                    drifted[f.name] = ("renamed", gone, set(names), f"`{f.name}` no longer has the parameter(s) {gone} (renamed or removed)")
                    continue
                shim = []
                # parameters whose default became a private "not given" sentinel (`_MISSING = object()`): the function
                # now tells 'left out' from 'passed' itself - an argument shim even where nothing was required before
                for prm in f.params:
                    d_ = prm.default
                    if isinstance(d_, _ast.Name) and d_.id in f.module.constants:
                        v_ = f.module.constants[d_.id]
                        if isinstance(v_, _ast.Call) and isinstance(v_.func, _ast.Name) and v_.func.id == "object" and not v_.args:
                            shim.append(prm.name)
                for n in req.get(q, []):
                    prm = f.param(n)
                    if n in ("self", "cls") or prm is None or prm.default is None or not (isinstance(prm.default, _ast.Constant) and prm.default.value is None):
                        continue
                    rebound = any(
                        isinstance(x, _ast.Assign)
                        and any(isinstance(y, _ast.Name) and y.id == n for t_ in x.targets for y in _ast.walk(t_))
                        and (any(isinstance(t_, (_ast.Tuple, _ast.List)) for t_ in x.targets) or not any(isinstance(y, _ast.Name) and y.id == n for y in _ast.walk(x.value)))
                        for x in _ast.walk(f.node)
                    )  # filled in from the OTHER arguments (`p = set(p)` is not that)
                    handed = any(isinstance(x, _ast.Call) and any(isinstance(a, _ast.Name) and a.id == n for a in x.args) for x in _ast.walk(f.node))
                    aliased = any(isinstance(x, _ast.Assign) and isinstance(x.value, _ast.Name) and x.value.id == n for x in _ast.walk(f.node))
                    if rebound or aliased:
                        shim.append(n)
                if shim:
                    req_names = [n for n in req.get(q, []) if n not in ("self", "cls")]
                    drifted[f.name] = ("shim", shim, req_names, f"`{f.name}` now takes {shim} optionally and fills it in from its other argument(s)")
            cx.model.__dict__["_drifted"] = drifted
        if not drifted:
            return None
        fn = cx.model.functions.get(construct)
        if fn is None:
            return None
        if fn.name in drifted:
            kind, params, extra, text = drifted[fn.name]
            if kind == "shim" or any(p_ in detail for p_ in params):
                return text
        for n in _ast.walk(fn.node):
            if isinstance(n, _ast.Call):
                nm = n.func.attr if isinstance(n.func, _ast.Attribute) else n.func.id if isinstance(n.func, _ast.Name) else None
                if nm not in drifted:
                    continue
                kind, params, extra, text = drifted[nm]
                if kind == "shim" and not any(isinstance(a, _ast.Starred) for a in n.args) and len(n.args) + len([k for k in n.keywords if k.arg in extra]) < len(extra):
                    return text
                if kind == "renamed" and any(k.arg is not None and k.arg not in extra for k in n.keywords):
                    return text
        return None

    def funnel(self, construct: str, where: str, message: str, through: bool, expected: str, witness: str = "", detail: str = "callee", wrong: bool = False) -> None:
        """Verdict of a wrapper rule ("f answers through g").  A return that bypasses ``g`` NEXT TO one that goes
        through it is a rule of f's own - a violation.  When no return goes through ``g`` at all, f has been
        re-implemented: what is proved about ``g`` no longer says anything about f, and nothing is known - unless
        it answers through a conversion function that takes the OTHER kind of input (``wrong``)."""
        if through or wrong:
            self.violate(construct, where, message, witness, detail)
        else:
            self.undecide(f"{construct.rsplit('.', 1)[-1]} does not go through {expected} at all (re-implemented): what is proved about {expected} does not carry over to it")

    def undecide(self, reason: str) -> None:
        if reason not in self.undecided:
            self.undecided.append(reason)

    def note(self, text: str) -> None:
        self.notes.append(text)

    @property
    def status(self) -> str:
        if self.findings:
            return VIOLATED
        if self.undecided:
            return UNDECIDED
        if len(self.sites) < self.floor:
            return UNDECIDED
        return HOLDS

    @property
    def undecided_reasons(self) -> list[str]:
        out = list(self.undecided)
        if not self.findings and len(self.sites) < self.floor:
            out.append(f"rule matched {len(self.sites)} site(s), below the floor of {self.floor} confirmed by hand")
        return out


class Cx:
    """Context handed to obligation functions."""

    def __init__(self, model: Model, tier: str = "quick") -> None:
        self.model = model
        self.S = Summariser(model)
        self.tier = tier
        self.calls_total = 0
        self.calls_resolved = 0
        self.functions_analysed: set[str] = set()

    def summary(self, q, obligation: str = "-", full: bool = False, bind: dict | None = None):
        fn = self.model.function(q, obligation) if isinstance(q, str) else q
        self.functions_analysed.add(fn.qualname)
        s = self.S.summary(fn, full=full, bind=bind)
        if s.truncated:
            raise AnalysisError(f"path explosion in {fn.qualname}", obligation)
        unk = s.__dict__.get("_unknown")
        if unk is None:
            unk = s.__dict__["_unknown"] = [ev for ev, _ in s.walk() if ev.kind == "unknown"]
        if unk:
            # a statement the summariser has no reading for: nothing is claimed about the function, either way
            raise AnalysisError(f"{fn.qualname} contains a statement that is not modelled (line {unk[0].line}: {unk[0].a[1] if isinstance(unk[0].a, tuple) else unk[0].a})", obligation)
        return s

    def fn(self, q: str, obligation: str = "-") -> FunctionInfo:
        fn = self.model.function(q, obligation)
        self.functions_analysed.add(fn.qualname)
        return fn


ObFn = Callable[[Cx, Ob], None]
THOROUGH_EXTRAS: dict[str, list] = {}


def thorough_extra(prop: str):
    def deco(fn):
        THOROUGH_EXTRAS.setdefault(prop, []).append(fn)
        return fn

    return deco

REGISTRY: dict[str, list[tuple[str, str, int, ObFn]]] = {}


def obligation(ob_id: str, rule: str, floor: int = 1):
    """Register an obligation function under ``<property>-<clause>``."""
    prop = ob_id.split("-")[0]

    def deco(fn: ObFn) -> ObFn:
        REGISTRY.setdefault(prop, []).append((ob_id, rule, floor, fn))
        return fn

    return deco


def evaluate(prop: str, cx: Cx) -> list[Ob]:
    out = []
    for ob_id, rule, floor, fn in REGISTRY.get(prop, []):
        ob = Ob(ob_id, rule, floor)
        ob.reads_through_list = cx.model.__dict__.setdefault("_reads_through_list", {})  # filled as summaries are built
        ob.cx = cx
        try:
            fn(cx, ob)
        except AnalysisError as e:
            ob.undecide(e.reason)
        except RecursionError:
            ob.undecide("analyser recursion limit")
        except Exception as e:  # noqa: BLE001 - a crash of the analyser is never a verdict
            tb = traceback.extract_tb(e.__traceback__)[-1]
            ob.undecide(f"analyser exception {type(e).__name__}: {e} at {pathlib.Path(tb.filename).name}:{tb.lineno}")
        out.append(ob)
    return out


# ---------------------------------------------------------------------- known findings
def load_known() -> list[dict]:
    if not KNOWN_FILE.exists():
        return []
    try:
        data = json.loads(KNOWN_FILE.read_text())
    except Exception:  # noqa: BLE001
        return []
    return data.get("findings", []) if isinstance(data, dict) else data


def known_for(prop: str) -> dict[str, dict]:
    return {e["key"]: e for e in load_known() if e.get("property") == prop and e.get("status") == "known"}


# ---------------------------------------------------------------------- property metadata
@dataclass
class PropMeta:
    id: str
    level: str
    explanation: str
    trusted_base: list[str]
    assumptions: list[str]
    undecided_clauses: list[str]


META: dict[str, PropMeta] = {}


def describe(prop: str, level: str, explanation: str, trusted_base: list[str], assumptions: list[str], undecided: list[str]) -> None:
    META[prop] = PropMeta(prop, level, explanation, trusted_base, assumptions, undecided)


# ---------------------------------------------------------------------- running a property
def run_property(prop: str, tier: str, model: Model | None = None, write: bool = True, extra: dict | None = None, replay_key: str | None = None) -> int:
    t0 = time.time()
    seed = int(os.environ.get("VERIF_SEED", "0") or 0)
    meta = META.get(prop)
    try:
        model = model or Model()
        cx = Cx(model, tier)
        obs = evaluate(prop, cx)
    except AnalysisError as e:
        print(f"ANALYSIS-ERROR property={prop} obligation={e.obligation} reason={e.reason}")
        _write_evidence(prop, tier, seed, meta, [], None, time.time() - t0, 0, {"analysis_error": e.reason}, write)
        return 2
    if not obs:
        print(f"ANALYSIS-ERROR property={prop} obligation=- reason=no obligations registered")
        return 2
    known = known_for(prop)
    new_findings: list[tuple[Ob, Finding]] = []
    known_hits: list[tuple[Ob, Finding, dict]] = []
    for ob in obs:
        for f in ob.findings:
            if f.key in known:
                known_hits.append((ob, f, known[f.key]))
            else:
                new_findings.append((ob, f))
    if replay_key is not None:
        hit = [f for _, f in new_findings if f.key == replay_key] + [f for _, f, _ in known_hits if f.key == replay_key]
        if hit:
            f = hit[0]
            print(f"REPLAY reproduced: {f.key} at {f.where}: {f.message}")
            if f.witness:
                print(f"  witness: {f.witness}")
            print(f"VIOLATION property={prop} replay={replay_key}")
            return 1
        print(f"REPLAY not reproduced on the current tree: {replay_key}")
        return 0
    code = 0
    for ob in obs:
        st = ob.status
        if st == HOLDS:
            print(f"OK        {ob.id:8s} sites={len(ob.sites):<3d} {ob.rule}")
        elif st == UNDECIDED:
            for r in ob.undecided_reasons:
                print(f"ANALYSIS-ERROR property={prop} obligation={ob.id} reason={r}")
        else:
            print(f"VIOLATED  {ob.id:8s} sites={len(ob.sites):<3d} {ob.rule}")
    for ob, f, entry in known_hits:
        print(f"KNOWN-FINDING: property={prop} {f.key} :: {entry.get('what', f.message)}")
    replay_dir = EVIDENCE_DIR / "replay"
    for i, (ob, f) in enumerate(new_findings):
        path = replay_dir / f"{prop}-{_slug(f.key)}.json"
        if write:
            replay_dir.mkdir(parents=True, exist_ok=True)
            path.write_text(
                json.dumps(
                    {
                        "property": prop,
                        "obligation": ob.id,
                        "rule": ob.rule,
                        "key": f.key,
                        "where": f.where,
                        "message": f.message,
                        "witness": f.witness,
                        "replay_cmd": f"/venv/bin/python -m curies_verif {prop} --replay {path}",
                    },
                    indent=1,
                )
                + "\n"
            )
        print(f"  finding {f.key}")
        print(f"    at {f.where}: {f.message}")
        if f.witness:
            print(f"    witness: {f.witness}")
        print(f"VIOLATION property={prop} replay={path}")
    if new_findings:
        code = 1
    elif any(ob.status == UNDECIDED for ob in obs):
        code = 2
    violations = len(new_findings)
    _write_evidence(prop, tier, seed, meta, obs, cx, time.time() - t0, violations, extra or {}, write, known_hits)
    return code


def _slug(s: str) -> str:
    keep = []
    for ch in s:
        keep.append(ch if ch.isalnum() or ch in "-_." else "_")
    return "".join(keep)[:150]


def _write_evidence(prop, tier, seed, meta, obs, cx, wall, violations, extra, write, known_hits=()) -> None:
    if not write:
        return
    EVIDENCE_DIR.mkdir(parents=True, exist_ok=True)
    level = meta.level if meta else "other"
    discharged = sum(1 for o in obs if o.status == HOLDS)
    evaluations = sum(max(1, len(o.sites)) for o in obs)
    nontrivial = sum(1 for o in obs if o.sites)
    samples = []
    for o in obs:
        samples.append(
            {
                "obligation": o.id,
                "rule": o.rule,
                "status": o.status,
                "sites_examined": o.sites[:12],
                "n_sites": len(o.sites),
                "floor": o.floor,
                "findings": [f.__dict__ for f in o.findings],
                "undecided": o.undecided_reasons,
                "notes": o.notes[:8],
            }
        )
    coverage = {
        "explanation": (meta.explanation if meta else "static obligations")
        + " | undecided clauses (not claimed): "
        + ("; ".join(meta.undecided_clauses) if meta else "-"),
        "obligations": len(obs),
        "discharged": discharged,
        "evaluations": evaluations,
        "distinct_nontrivial": nontrivial,
        "rule": "one evaluation = one (obligation, construct of the current tree) pair examined by a static rule; an obligation is non-trivial when it examined at least one real construct",
        "samples": samples,
        "checker_cmd": f"/venv/bin/python -m curies_verif {prop} --tier {tier}",
        "trusted_base": meta.trusted_base if meta else [],
        "functions_analysed": sorted(cx.functions_analysed) if cx else [],
        "source_root": str(os.environ.get("CURIES_SRC", "/repo/src/curies")),
        "modules_parsed": sorted(cx.model.modules) if cx else [],
        "known_findings_reported": [f.key for _, f, _ in known_hits],
        "exhaustive": False,
    }
    coverage.update(extra)
    doc = {
        "property_id": prop,
        "tier": tier,
        "seed": seed,
        "level": level,
        "coverage": coverage,
        "assumptions": meta.assumptions if meta else [],
        "wall_s": round(wall, 3),
        "violations": violations,
    }
    (EVIDENCE_DIR / f"{prop}.json").write_text(json.dumps(doc, indent=1, default=str) + "\n")
